"""Static per-property metadata used by bin/check for budgets and evidence text."""

COMPONENTS = {
    "mux": {
        "real": ["net.MultiplexingListener (IngressConn, IngressListener, Accept, Close, drainConnections) incl. its RWMutex, sync.Once, channel and context",
                 "Go runtime channels/select/context inside a testing/synctest bubble"],
        "stub": ["net.Conn values are counting stubs (no data is transferred)", "the feeding net.Listener is simnet's in-memory listener",
                 "goroutine choice: seeded scheduler at hook-H2 points; Accept's two-way select resolved by simSelect when both cases are ready"],
    },
    "world": {
        "real": ["registration, rotation, types, tls (certificate generation), encryption.go, storage/inmem, storage/file (on a per-run scratch directory), storage/testing store-once",
                 "go-kms-wrapping/v2 aead wrappers (honour AAD)", "crypto/x509, crypto/ed25519, crypto/ecdh, protobuf"],
        "stub": ["wall clock: synctest fake clock", "crypto randomness: cryptotest ChaCha8 stream seeded per run", "math/rand: seeded per run",
                 "storage faults/ordering: simstore decorator around the real back end"],
    },
    "wire": {
        "real": ["protocol.InterceptingListener, protocol.Dial (through hook H1), protocol.Conn, tls.ClientConfigs/ServerConfig/GenerateServerCertificates, registration.FetchNodeCredentials, net.SplitListener/MultiplexingListener",
                 "crypto/tls 1.3 handshakes (go1.26) on both sides", "storage/inmem or store-once behind simstore"],
        "stub": ["network: simnet in-memory streams (fragmentation, drops at a chosen write, resets)", "kernel dialing replaced by protocol.SimDial (address parsing and SNI logic still run)",
                 "adversarial peers: hand-written crypto/tls clients and rogue servers", "wall clock / randomness as in world"],
    },
    "kv": {
        "real": ["storage/inmem, storage/file (per-run scratch directory), storage/testing store-once", "porcupine v1.3.0 linearizability checker"],
        "stub": ["client goroutines are scheduled one operation at a time by the seeded scheduler (operations are atomic steps)"],
    },
}

COMMON_ASSUME = [
    "sampling, not enumeration: a clean batch is evidence, not proof",
    "one run is a pure function of (code, tape); every choice (operations, arguments, schedule, faults, clock jumps) is drawn from the run's tape",
]

META = {
    "C18": dict(
        engine="mux", level="exploration", quick_s=25, thorough_s=600,
        rule="each run draws a bag of operations (IngressConn x k<=6 (a fifth of them together with an error), IngressListener feed <=3, Accept x m<=4, Close x 0-2, parent cancel x 0-1, late Accepts after Close) and a schedule: every hook-H2 point is one scheduling decision of the seeded lock-aware scheduler. A case is non-trivial when the bag has >=1 ingress, >=1 Close/cancel and >=3 operations; cases are distinct by (bag shape, hash of the (role,seam) decision sequence).",
        assumptions=COMMON_ASSUME + [
            "the scheduler only releases a goroutine into RLock/Lock when the model says it gets the lock at once (a goroutine blocked behind a pending writer is treated as not having reached RLock yet)",
            "when both cases of Accept's select are ready the context branch is taken (a legal outcome of the original select); the other outcome is explored by schedules where Accept is already blocked in the select",
            "literal data-race freedom is not decided by the serialising scheduler; both tiers add an auxiliary free-running -race stress (bin/racestress; 8 s quick, 90 s thorough)",
        ]),
}


def _w(pid, quick_s, thorough_s, rule, extra_assume=(), level="exploration", **kw):
    META[pid] = dict(engine="world", level=level, quick_s=quick_s, thorough_s=thorough_s, rule=rule,
                     assumptions=COMMON_ASSUME + list(extra_assume), **kw)


_w("C08", 25, 600,
   "half of the runs inject a stored roots record realising one weak ordering of {cur.NotBefore, cur.NotAfter, next.NotBefore, next.NotAfter, now} (ties included; also empty and half-missing records) and call RotateRootCertificates once (with/without reinitialize, skip-storage); the other half are histories of 2-12 calls from empty storage separated by clock jumps (1ns..3 spans, biased to land within 2ns of a stored instant); lifetime 1ns..10y, skews 0..lifetime/4; back end inmem/file/store-once, storage wrapper on/off. A share of the configurations uses century-scale lifetimes (250 years .. the largest duration; lifetime+skew may exceed it). Non-trivial: every case (the suite has no call at a controlled instant). Distinct by (weak order, missing-kind, reinit, back end, wrapper) for injections and by (config, seed) for histories.",
   ["the clock does not move within one library call (asserted), so minted windows are checked exactly",
    "exact ties between now and a stored instant accept the behaviour of either adjacent open interval (every resolution of the tied comparisons is evaluated)",
    "lifetime+notAfterSkew < 2ns is excluded from generation (half of the remaining life is 0 in integer nanoseconds)",
    "reinitialize on storage that holds no roots record may fail on back ends whose Remove reports absent entries (file): not judged"])
_w("C03", 25, 600,
   "each case = (request origin: library-created under the sim clock or harness-built with an arbitrary window) x (wire corruption: none, one bit of bundle or signature, multi-byte overwrite, truncation, swapped signature) x (missing/unsupported fields) x (placement of now: inside, within 1ns of either skewed or unskewed edge, far before/after) x (not-before/not-after skews from +-{0,1ns,1s,1m,1h}) x (AuthorizeNode or FetchNodeCredentials) on a recording storage. Windows reaching before 1678 / after 2262 (containing now, or entirely outside) are included. Non-trivial: every corrupted, boundary or skewed case; distinct by (target, corruption, field case, placement, skews, origin).",
   ["a request counts as 'processed' iff the call made a Store/Remove or looked up a node record or token (the data an authorization decision rests on); a refused request must do none of that - merely reading the roots first would not count",
    "on an exact boundary either behaviour is accepted; 'documented fetch lifetime' is 24h (const.go DefaultFetchCredentialsLifetime doc comment)"])
_w("C05", 25, 600,
   "each case = (1-4 records under one node ID in a tape-chosen lookup order, records under another node ID, a record without node ID, an unregistered key) x (claimed key) x (nonce signer: claimed key, another registered key, unregistered key, none, forged) x (client state absent/present, signer drawn independently) x (node-ID hint absent/matching/foreign/unknown) x (storage is/is not a NodeIdLoader) x (local skip-verification). Non-trivial: all; distinct by (lookup path, signer classes, scope size, first index of the lookup order).",
   ["LoadByNodeId is implemented by simstore over the real back end so that result order and multiplicity are tape choices"])
_w("C01", 30, 900,
   "each run is an interleaved history (6-40 ops) of operator actions (authorize, create token, remove node, set/unset the registration wrapper, clock jumps across token expiry) and well-signed fetch requests assembled from {registered/unregistered/fresh certificate key} x {own/other/fresh encryption key} x {own/other/fresh nonce, live/used/expired/fabricated token, garbage} x {no wrapped info, sealed by the server's / a foreign wrapper, sealed for another nonce or key, re-wrapped by the registered intermediate, under an unregistered or wrong key ID, for another nonce, garbage, short ciphertext}; altered requests are re-signed with the matching private key. A share of the requests also fills the bundle fields meant for the library's own use (id, wrapping_registration_flow_info) with another node's ID / self-made registration info; for every issued response the record must live under the request key's ID and no other record may change. Non-trivial: every fetch except the plain honest one; distinct by (request class, model verdict, outcome, wrapper configured, token live).",
   ["reference model: issue is allowed iff (a) record with same nonce and encryption key, (b) live token and no record for the key, (c) registration info sealed by the configured wrapper / re-sealed by a currently registered node and matching nonce and certificate key; on a store-once back end (c) builds the response from the existing record",
    "liveness of authorized requests is not asserted here (C04 owns it); probe counters show how often credentials were issued"])
_w("C06", 25, 600,
   "each run is a history (4-25 ops) over 1-4 tokens: create (with/without state), use by one of three node keys (fresh, re-use, key that already has a record), clock jumps to age = max-2ns..max+2ns or far, and tampering with the stored record while keeping it sealed (clear creation_time moved later; sealed creation time of a newer token transplanted; one bit of the sealed blob flipped); max lifetime 1ns..3y; storage wrapper on/off; all three back ends. Also lifetimes of 0 and of centuries (.. the largest duration), uses whose server-side fetch passes WithSkipStorage, and a whole stored record of a newer token copied over an older one. Non-trivial: every use after another operation; distinct by (model liveness, key registered, tamper kind, expired, on-boundary, wrapper, back end).",
   ["'age exceeds max' is strict: at age == max either outcome is accepted; a token is considered consumed by any attempt that reached it while live",
    "removing the sealing (clearing wrapping_key_id) is outside the tamper space: unsealed records are deliberately loadable (suite case valid-no-store-wrapping)"])
_w("C10", 30, 900,
   "each run enrolls nodes A and B (optionally under node IDs, storage wrapper on/off, NodeIdLoader on/off) and issues 3-12 rotation requests: encrypting key in {A's current, A's previous generation, B's, unrelated} x identification in {key ID of current/encrypting/other/unknown key, node ID own/other/unknown with tape-chosen lookup order} x inner request in {honest, token nonce inside, bad signature, expired, not yet valid, for an already registered key} x wire corruption {bit flip, truncation, short/empty AEAD ciphertext} plus replays of accepted payloads and chains A0->A1->A2 where the application records previous keys and retires old records. Node records with and without state, callers passing WithState to the rotation, inner requests that name another record's ID in the bundle's id field. Non-trivial: all; distinct by (encrypting key, identification, inner variant, corruption, outcome, scope size, via-previous-key).",
   ["reference model is derived from the stored records with independent X25519 (crypto/ecdh): honored iff some record in the lookup scope decrypts the payload with its current or recorded previous key, the inner request is valid and its key is not registered; a replay is judged by the same rule",
    "a corrupted blob may still decrypt to the original message (bits outside the authenticated ciphertext): then all honored-postconditions must hold",
    "the simulated histories issue one rotation request at a time: rotations of DIFFERENT nodes overlapping in one server process (state shared between calls) are exercised by the auxiliary free-running -race stress (bin/racestress C10; 8 s quick, 90 s thorough), which checks facts load cannot disturb: each node's honest rotation is honored, its reply opens with that node's own pre-rotation key and with no other node's, the new record carries that node's state, requests under an unrelated or another node's key are refused"])
_w("C11", 25, 600,
   "each run evolves one (node credentials, node information) pair through 0-3 key rotations (all keys, only the certificate key = same secret/new key ID, or only the encryption keys), with the previous key recorded on one, both or neither side and either side possibly left behind; messages of seven library message types are encrypted by either side, held in flight across rotations, delivered in tape-chosen order, optionally corrupted (one bit, multi-byte overwrite, truncation, AEAD ciphertext cut to 0-40 bytes, arbitrary bytes, a valid blob of another pair). Receivers with blank key IDs, and deliveries decrypted into a message that still holds an earlier message of the same type. Non-trivial: every delivery that is corrupted or crosses a rotation; distinct by (direction, matches current, matches previous, rotations crossed, corruption, outcome, message type).",
   ["expected outcome computed with crypto/ecdh and an independent key-ID computation: success iff the sender's (secret, key ID) equals the receiver's current or recorded previous one",
    "message encryption has no seam inside and the simulated parties run one call at a time: 'never a crash' when a server decrypts for many connections AT ONCE (package-level state touched by overlapping calls, failing ones included) rests on the auxiliary free-running -race stress (bin/racestress C11; 8 s quick, 90 s thorough), which also checks facts load cannot disturb: a good ciphertext opens to exactly its message, a damaged or foreign one fails or yields the original"])
_w("C12", 25, 600,
   "half of the runs execute every flow that writes records with storage wrappers on both sides (root rotation incl. promotion, node credential creation, authorize or token creation+use, fetch, response handling, 0-2 node credential rotations with previous keys retained on both sides) and scan every message handed to Store for every secret the harness has seen (raw and base58); the other half store one of the four record types with a tape-chosen combination of optional fields (nonce, previous key, state, bundles) and check round trip, load without / with another wrapper, and a sealed field transplanted from another record of the same type. Also: KMS outage in the wrapper's Encrypt during flows; a pooled wrapper whose encrypting key is rotated between store and load; record sets loaded by node ID with one unopenable record. Non-trivial: all; distinct by (flow sequence, back ends) and (record type, optional-field mask, transplanted field, back end).",
   ["wrappers are real go-kms-wrapping aead wrappers (honour associated data)",
    "'node-side registration nonce' is looked for in NodeCredentials records only (the server's own copy in NodeInformation is not covered by the statement)"])
_w("C13", 20, 600,
   "runs 0..125 enumerate completely: for each of 21 flows (authorize; fetch node-led / token / wrapper / re-wrapped; token creation; root rotation on empty storage, at promotion time, as no-op, with reinitialize; node rotation by key ID and by node ID; a repeated wrapper-flow fetch; a replayed rotation payload; server-certificate generation; node-side (also the token variant) NewNodeCredentials and HandleFetchNodeCredentialsResponse; and protocol.Dial of a pending node against the real listener with the fault in the server storage, in the node storage, and in the token variant) x 3 back ends x storage wrapper on/off, a fault-free pilot counts the n storage operations of the call and then every position 0..n-1 x {generic error, injected not-found, cancelled context, write applied but reported failed, crash (this and all later operations fail)} is executed in a fresh world; later runs sample double faults. Non-trivial: every faulted execution; distinct by (flow, back end, wrapper, position(s), kind(s)).",
   ["a cancelled-context fault cancels the context the harness handed to the library and fails that call; back ends that ignore contexts (file) keep working afterwards",
    "after every failed faulted call the honest caller retries once without fault and the same oracle is applied to the retry", "a failed call may legitimately have added a record for its own new key (node rotation whose second half failed)",
    "in the three Dial flows every simstore call and simnet operation is also a scheduling point (the tape picks the interleaving of node and server)"],
   level="fault_enumeration", min_runs=126, exhaustive_quick=True, grace_s=600)
_w("C09", 40, 900,
   "each run is one discrete-event history on the fake clock: lifetime 1min..10y, skews 0..lifetime/4 (or the defaults), server rotation intervals drawn in (0,R] with R<S (incl. exactly R), 1-3 nodes that enroll at a random instant and re-enroll (authorize+fetch or RotateNodeCredentials) at intervals in (0,N], N=(S-R)/2-|nbSkew|-2s (incl. exactly N); 30-200 events; probes 1ns before / at / after every event and at random instants in between. Re-enrollment also through the registration-wrapper flow, including a re-fetch with the node's existing key (not on store-once); sampled real handshakes (protocol.Dial against the listener on simnet) at probe instants. Non-trivial: every history; distinct by (lifetime, skews, R, nodes, events, back end).",
   ["x509 validity has one-second resolution: configurations below one minute are not generated and the node bound carries a 2s allowance",
    "histories whose node bound is not positive are discarded and counted, not judged",
    "about one probe in forty also runs a real handshake with the node's current credentials"])
_w("C04", 30, 900,
   "runs 0..47 cover every cell of flow {operator-authorized, activation-token, wrapper, re-wrapped via an intermediate} x back end {inmem, file, store-once} x server storage wrapper x node storage wrapper; later runs draw cells from the tape. Each run additionally draws application state / params (absent, empty, flat, nested), a second root rotation, a clock jump between authorization and fetch, 0-2 lost responses (honest retry with the same stored key) and one substitution of the response on the node side (another node's response, re-encrypted to another key, different nonce inside, swapped server public key). Non-trivial: all (the suite performs one token enrollment on store-once without wrappers); distinct by (cell, state kind, lost responses, substitution).",
   ["a lost response is not retried in the token flow (tokens are single-use by design)",
    "'fetches after authorization' includes a fetch repeated after an attempt that failed on a passing storage error (one failing operation: generic error, own-deadline error, or applied-but-reported-failed): the repeat is owed a response like after a lost one; not drawn in the token flow",
    "registration wrappers are of two kinds: direct AEAD and envelope-encrypting (go-kms-wrapping's test envelope wrapper, the shape of every KMS-backed wrapper)",
    "the authenticated handshake with the stored credentials is exercised by the wire engines (C02/C07/C16)"], min_runs=48, grace_s=300)

def _wire(pid, quick_s, thorough_s, rule, extra_assume=(), **kw):
    META[pid] = dict(engine="wire", level="exploration", quick_s=quick_s, thorough_s=thorough_s, rule=rule,
                     assumptions=COMMON_ASSUME + list(extra_assume), **kw)


_wire("C14", 35, 900,
      "each run starts the real InterceptingListener (with or without an application base TLS config, registration wrapper, NodeIdLoader) and a gRPC-style accept loop, then sends 2-7 hostile connections: raw non-TLS bytes; ClientHellos whose ALPN list is built from the library prefixes with hostile suffixes (prefix only, shorter than the chunk header, non-digit header, non-base64, base64 of random / truncated / odd protobuf, valid signed fetch requests carrying hostile wrapped or re-wrapped blobs, mixed and duplicated prefixes, up to 60 KB); honest handshakes that the network drops at the k-th write of either side (with 0..200 bytes of that write delivered); partial hellos followed by a stall and a drop. Also TLS clients that abort with an alert, unauthorized fetches, simulated connection resets shaped like real ones (*net.OpError ECONNRESET), Close errors; in a third of the runs the clock jumps 8/15/22/40 days in the middle of the traffic without anybody rotating (validity outage: no liveness expected, but no panic and only temporary errors), followed by recovery (rotate, enroll again). Honest dials follow half of the hostile connections and always the last one; finally the base listener is closed or made to fail. Non-trivial: every hostile connection; distinct by (kind, class).",
      ["a peer that stalls forever blocks Accept by design (handshakes are inline); stalls here always end in a drop",
       "read/write deadlines are not modelled by simnet (the library sets none on this path)"])
_wire("C02", 40, 900,
      "each run registers 2-4 nodes (optionally under shared node IDs; storage with or without NodeIdLoader; optional application base TLS config) and plays a history of 4-14 operations: operator removes / re-registers a node, clock jumps with root rotation (3/8/15 days), honest protocol.Dial connections, and adversarial TLS clients drawn from {own leaf, stolen leaf without the key, leaf from a foreign CA, self-signed, server-auth leaf minted by the real roots for a victim's key} x {nonce signed by the presented key, (nonce,signature) replayed from an observed honest ClientHello, forged, missing} x skip_verification x common_name x node-ID hint {absent, own, foreign, unknown} x client state {none, signed, forged, unsigned} x certificate preference {valid, garbage, absent} x one-byte mutation of the base64 ALPN payload. Also hand-driven credential-fetch handshakes with application protocols before / after / around the request entries (never a connection). Non-trivial: every adversarial or post-removal connection; distinct by the tuple of these choices and the model verdict.",
      ["reference model: an authenticated connection requires possession of the presented leaf's key, a chain to a root that is current or next in server storage and valid now, and a stored record (of the presented leaf's actual public key, or under the named node ID when storage is a NodeIdLoader) whose key verifies the nonce signature actually sent",
       "on the node-ID path the statement does not bind the peer's key to the verifying record (observation S12 in DESIGN.md): not judged"])
_wire("C16", 35, 900,
      "each run enrolls one node and makes 2-6 connections through the real protocol.Dial: client state in {absent, empty struct, flat, nested with lists/unicode/null, medium 1-12 KB} x extra ALPN lists in {none, one, duplicates, 2-8 entries} drawn from near-misses of the library prefixes (other case, truncated, preceded by a byte, reserved split-listener names, non-ASCII); a quarter of the connections are adversarial: a registered key holder sending client state that is unsigned, forged or signed by another key, with and without skip_verification. Listener options that themselves carry WithState / WithExtraAlpnProtos; clients built from modified ClientConfigs; the returned protocol list is modified in place and re-read. Non-trivial: all; distinct by (state kind, number/class of extras) and adversary kind.",
      ["the ALPN list is taken from the ClientHello bytes captured by simnet (own TLS record/ClientHello parser)",
       "an empty Struct marshals to zero bytes and is treated as 'no state'",
       "client states that need 100 or more ALPN chunks are exercised by C07 (honest configurations), not here"])
_wire("C07", 40, 900,
      "each run is one of three scenarios around the real protocol.Dial (through hook H1): (history) enroll, then 3-9 steps of clock jump + root rotation or a dial with tape-chosen address form (host:port, bare host, unix path, IPv4/IPv6 literal), client state (absent, small, nested, large 12-30 KB = more than 99 ALPN chunks), extra ALPN protocols and node storage wrapper; (pending) NewNodeCredentials, dial before authorization, operator authorization of the stored key, dial again - also token and wrapper flows; (rogue) the dial is routed to a hand-written crypto/tls server that presents a foreign-root certificate with the right nonce, a certificate legitimately minted by the real roots for another nonce, one without nonce, a registered node's client certificate, the non-preferred chain, or (control) a correct relay certificate. Also: clock jumps without rotation (roots age; window where current is expired and next valid), a short-reading application random source (no degenerate nonce may leave the node), a man in the middle after the fetch, rogues that request no client certificate or select a fetch-like extra protocol. Non-trivial: all; distinct by (scenario, address class, state/extras, rogue kind, outcome).",
      ["the nonce of a connection is extracted from the ClientHello bytes captured by simnet",
       "an honest dial is required to succeed iff some stored chain is valid now and issued by a root the server currently holds (computed with crypto/x509 from both storages)",
       "kernel dialing is replaced by protocol.SimDial, called from each network arm of Dial with the network it chose (unix for a path, tcp otherwise - asserted); address parsing and SNI selection still run"])
_wire("C17", 40, 900,
      "each run builds a SplitListener over the real listener with a tape-chosen set of sub-listeners (three specific names, __AUTH__, __UNAUTH__, each present or not, native connections on/off, GetListener sometimes called twice) and an application base TLS config in {none, no ALPN, fixed protocols, mirroring whatever the client offers}; 3-9 clients follow: authenticated nodes with extra-protocol lists (matching none / one / several registered names, the reserved names, near-misses), base-TLS clients offering tape-ordered lists that include the reserved names, registered names, near-misses and names under the certificate-preference prefix, fetch-only (unauthorized) nodes and raw garbage; finally the base listener is closed. All goroutines (split loop, one acceptor per sub-listener, clients) run under the seeded lock-aware scheduler. Non-trivial: all; distinct by (client kind, offered names, registered set, destination, negotiated protocol).",
      ["which of several matching specific sub-listeners receives an authenticated connection is not judged (sync.Map iteration order)",
       "a sub-listener the application has closed stays registered for its name (the library keeps it): a connection offering that name is closed or reaches another sub-listener whose name it also offered, never one it did not offer",
       "a 'mirroring' application base config is part of the configuration space: the statement quantifies over base-TLS clients offering arbitrary names",
       "GetListener has no seam inside: registration from several goroutines AT ONCE is exercised by the auxiliary free-running stress (bin/racestress C17; 8 s quick, 90 s thorough), which checks a fact load cannot disturb: a name keeps yielding the sub-listener first handed out for it"])
_wire("C15", 45, 900,
      "each run draws a plan: 2-6 clients from {authentication with own client state and extra protocols, authorized node-led fetch+authentication, unauthorized fetch, token enrollment with distinct per-token state, rejected authentication of a removed node}, 2-4 acceptor goroutines, and the listener's option slice with tape-chosen length 0-12 and spare capacity 0-8. The plan is executed twice in fresh identical worlds: one client at a time, then all clients concurrently with every simstore call and every simnet read/write/accept as a scheduling point of the seeded scheduler (with per-run priorities for long overtakes). Also plain TLS clients served by an application base config (offering some or no ALPN; absolute oracle: reported list = offered list) and per-client connection resets applied identically in both executions. Non-trivial: every plan with >=2 clients; distinct by (client kinds, option slice shape, acceptors, schedule hash).",
      ["isolation is decided by differential execution: per client the tuple (dial result, accept result, negotiated-protocol class, ClientState, ClientNextProtos tail, node record existence and state, token consumed) must be equal in both executions; connections are attributed to clients by a unique marker protocol each client offers",
       "literal data-race freedom is not decided by the serialising scheduler (consequences of unsynchronised sharing are); both tiers add an auxiliary free-running -race stress (bin/racestress; 8 s quick, 90 s thorough), which also checks facts load cannot disturb (a client's state reported exactly once; the record of a node that got in filed under its own key ID)"])
META["C19"] = dict(
    engine="kv", level="exploration", quick_s=25, thorough_s=600,
    rule="two thirds of the runs are sequential histories of 5-60 Store/Load/Remove/List operations over IDs {a,b,c,current,next,roots,ab,xa,a.tmp,a~,a.bak} (path-like IDs too on the in-memory back ends) x the four message types (unique payload per store; nil, typed-nil and unknown message types interspersed) on inmem, file (per-run scratch directory) or store-once, compared step by step with a typed map model; one third are concurrent histories (2-4 clients x 3-10 operations on a two-ID, two-type key space, inmem or store-once) where each operation is one step of the seeded scheduler, invoke/return are stamped with the scheduler's event counter, and the history is checked with porcupine against the same model. Also: operations with a cancelled context (reported failure = no effect), loads into messages that already hold values, records of 4 KiB-300 KiB, restarts of the file back end (directory re-opened mid-history), and a large-population phase (255-1027 records of one type). Non-trivial: all; distinct by (back end, history length, final model state) and (clients, operations, schedule hash).",
    assumptions=COMMON_ASSUME + [
        "Remove of an absent entry may return nil or an error (the statement is silent and the back ends differ); state must be unchanged",
        "operations are atomic scheduling steps (the back ends have no internal seam): a missing lock is invisible to the deterministic part; that clause rests on the auxiliary -race stress (bin/racestress; 8 s quick, 90 s thorough), which also checks that every acknowledged store of a private key made during the rush is loadable and listed afterwards",
        "porcupine Unknown (timeout) is counted as inconclusive and never reported"])

# instrumentation call sites the simulator relies on (file -> {text: minimum number of occurrences}); checked statically by bin/check
HOOK_SITES = {
    "protocol/dialer.go": {"simDial(": 1},
    "tls/client.go": {"simOrderConfigs(": 1},
    # per function of MultiplexingListener: the scheduling points that must be somewhere inside it (textual occurrences are
    # not counted: a restructured loop may need fewer call sites for the same points)
    "net/splitlistener.go": {
        "IngressConn": ["ingress.rlock.pre", "ingress.rlock.post", "ingress.send.pre", "ingress.send.post", "ingress.runlock.post"],
        "IngressListener": ["ingress.rlock.pre", "ingress.rlock.post", "ingress.send.pre", "ingress.send.post", "ingress.runlock.post"],
        "Accept": ["accept.select.pre", "accept.select", "accept.recv.post", "accept.ctxdone"],
        "Close": ["close.enter", "close.lock.pre", "close.lock.post", "close.unlock.post"],
        "drainConnections": ["drain.cancel.post", "drainer.recv.pre", "drainer.recv.post", "drainer.exit"],
    },
}
HOOK_COMMITS = ["54f90f1", "c914c74", "9c93c69", "a7d518d"]

NOT_APPLICABLE = {}
NOT_APPLICABLE["C20"] = ("pure function of its arguments (BreakIntoNextProtos/CombineFromNextProtos): no clock, schedule, I/O, fault or second party for a simulator to control; "
                         "its failure modes are reached by the simulated workloads of C14 (malformed entries in a hostile ClientHello) and C07/C16 (honest payloads needing >99 chunks)")

LEVEL_TEXT = {
    "C19": "seeded operation histories against an executable typed-map model, sequentially (step-by-step refinement) and concurrently (linearizability of the recorded history with porcupine).",
    "C15": "seeded schedule exploration of concurrent handshakes on one real listener (scheduling points at the storage and network seams), with isolation decided by differential execution against a one-at-a-time run of the same plan.",
    "C17": "seeded simulation of authenticated, base-TLS, fetch-only and garbage clients against the real SplitListener stack under the deterministic scheduler; each delivery is judged against a routing model (authenticated peers only on non-__UNAUTH__ listeners, destination rule, connection type, closure).",
    "C07": "seeded simulation of honest dial histories across root rotations, of the pending-then-authorized path, and of rogue-server constructions; every completed dial is checked against the node's stored roots and the connection's own nonce, every expected-successful dial must succeed.",
    "C16": "seeded simulation of honest dials with varied client state and ALPN extras against the real listener; the application-visible metadata is compared with what the node supplied and with the ClientHello captured on the simulated wire; adversarial unsigned/forged state must never reach the application.",
    "C02": "seeded simulation of honest and adversarial TLS peers against the real listener across register/remove/rotate histories; every authenticated connection is judged by a reference model recomputed from server storage and from what was actually sent.",
    "C14": "seeded simulation of hostile peers against the real listener: every Accept iteration runs under recover (a panic is a violation), every error for a hostile connection must be Temporary, a subsequent honest node must connect, non-temporary errors only after the base listener is closed or fails.",
    "C09": "seeded discrete-event simulation of rotation/re-enrollment histories over simulated years with cadences up to and including the stated bounds; invariants (never reset, roots stay trusted until the successor is valid, every node holds a valid trusted chain, ClientConfigs agrees) at probe instants around every event.",
    "C04": "seeded exploration of the full configuration product with lost-response retries and response substitution; every clause about response, certificates, server record and node storage is checked with independent crypto/x509/ecdh.",
    "C13": "complete enumeration of single storage faults (every operation position x five fault kinds: generic error, not-found, cancelled context, applied-but-reported-failed, crash-from-here-on) for 21 flows x 3 back ends x wrapper on/off, each in a fresh simulated world, plus sampled double faults; oracle: error without results, or success reflected in the inner back end; other nodes' records byte-identical.",
    "C10": "seeded exploration of rotation requests, lookup orders, corruptions, replays and rotation chains against a model recomputed from stored records with independent cryptography.",
    "C11": "seeded simulation of two parties exchanging encrypted messages over a delaying, reordering, corrupting channel across key rotations; oracle is an independent X25519/key-ID computation.",
    "C12": "seeded exploration of all writing flows with a byte-level scan of everything handed to storage, plus record-level round-trip / wrong-wrapper / misdirected-sealed-field checks for every optional-field combination.",
    "C01": "seeded exploration of operator/request histories against an executable authorization model; every issued response is additionally opened with every key the harness holds to check it is bound to the requester.",
    "C06": "seeded exploration of token histories with clock jumps to the expiry boundary and sealed-record tampering against a token-liveness model; stored bytes are scanned for token material.",
    "C08": "seeded exploration of stored-state orderings and rotation histories on the fake clock against an executable decision table written from the statement, with exact post-conditions (windows, overlap, durability, no-op identity).",
    "C03": "seeded exploration of wire corruptions x clock placements x skew configurations against the acceptance predicate of the statement; refusals are required to be storage-silent.",
    "C05": "seeded exploration of lookup-result orderings and signer choices against a reference predicate (exists record in scope verifying nonce and state).",
    "C18": "seeded exploration of interleavings of ingress/accept/close/cancel on the real MultiplexingListener under a lock-aware deterministic scheduler; invariants (exactly-once delivery xor close, no panic, Close returns, accept-after-close) checked after every step and at quiescence. Sampling: small bags usually saturate their schedule space, exhaustiveness is not claimed.",
}
TECHNIQUE = {
    "C19": "deterministic simulation: seeded operation histories, refinement against a map model; concurrent histories under the seeded scheduler checked for linearizability with porcupine",
    "C15": "deterministic simulation: seeded scheduler over storage/network seams for concurrent TLS handshakes; differential oracle (concurrent vs one-at-a-time execution of the same plan)",
    "C13": "deterministic simulation with enumerated fault injection at the Storage seam (single faults complete, double faults sampled); durability/fail-closed oracle against the inner back end",
    "C18": "deterministic simulation: seeded lock-aware scheduler over hook-H2 points in a synctest bubble; invariants per step + bounded-liveness at quiescence; tape shrinking",
}
