"""Static per-property metadata used by bin/check for budgets and evidence text."""

COMPONENTS = {
    "mux": {
        "real": ["net.MultiplexingListener (IngressConn, IngressListener, Accept, Close, drainConnections) incl. its RWMutex, sync.Once, channel and context",
                 "Go runtime channels/select/context inside a testing/synctest bubble"],
        "stub": ["net.Conn values are counting stubs (no data is transferred)", "the feeding net.Listener is simnet's in-memory listener",
                 "goroutine choice: seeded scheduler at hook-H2 points; Accept's two-way select resolved by simSelect when both cases are ready"],
    },
    "world": {
        "real": ["registration, rotation, types, tls (certificate generation), encryption.go, storage/inmem, storage/file (on a per-run scratch directory), storage/testing store-once",
                 "go-kms-wrapping/v2 aead wrappers (honour AAD)", "crypto/x509, crypto/ed25519, crypto/ecdh, protobuf"],
        "stub": ["wall clock: synctest fake clock", "crypto randomness: cryptotest ChaCha8 stream seeded per run", "math/rand: seeded per run",
                 "storage faults/ordering: simstore decorator around the real back end"],
    },
    "wire": {
        "real": ["protocol.InterceptingListener, protocol.Dial (through hook H1), protocol.Conn, tls.ClientConfigs/ServerConfig/GenerateServerCertificates, registration.FetchNodeCredentials, net.SplitListener/MultiplexingListener",
                 "crypto/tls 1.3 handshakes (go1.26) on both sides", "storage/inmem or store-once behind simstore"],
        "stub": ["network: simnet in-memory streams (fragmentation, drops at a chosen write, resets)", "kernel dialing replaced by protocol.SimDial (address parsing and SNI logic still run)",
                 "adversarial peers: hand-written crypto/tls clients and rogue servers", "wall clock / randomness as in world"],
    },
    "kv": {
        "real": ["storage/inmem, storage/file (per-run scratch directory), storage/testing store-once", "porcupine v1.3.0 linearizability checker"],
        "stub": ["client goroutines are scheduled one operation at a time by the seeded scheduler (operations are atomic steps)"],
    },
}

COMMON_ASSUME = [
    "sampling, not enumeration: a clean batch is evidence, not proof",
    "one run is a pure function of (code, tape); every choice (operations, arguments, schedule, faults, clock jumps) is drawn from the run's tape",
]

META = {
    "C18": dict(
        engine="mux", level="exploration", quick_s=25, thorough_s=600,
        rule="each run draws a bag of operations (IngressConn x k<=6, IngressListener feed <=3, Accept x m<=4, Close x 0-2, parent cancel x 0-1, late Accepts after Close) and a schedule: every hook-H2 point is one scheduling decision of the seeded lock-aware scheduler. A case is non-trivial when the bag has >=1 ingress, >=1 Close/cancel and >=3 operations; cases are distinct by (bag shape, hash of the (role,seam) decision sequence).",
        assumptions=COMMON_ASSUME + [
            "the scheduler only releases a goroutine into RLock/Lock when the model says it gets the lock at once (a goroutine blocked behind a pending writer is treated as not having reached RLock yet)",
            "when both cases of Accept's select are ready the context branch is taken (a legal outcome of the original select); the other outcome is explored by schedules where Accept is already blocked in the select",
            "literal data-race freedom is not decided by the serialising scheduler; the thorough tier adds an auxiliary free-running -race stress (bin/racestress)",
        ]),
}

HOOK_COMMITS = ["54f90f1 (H2: net/splitlistener.go scheduling points + net/verif_hook_{on,off}.go)",
                "c914c74 (H1: protocol/dialer.go SimDial seam + protocol/verif_hook_{on,off}.go)"]

_UNBUILT = "check not built yet in this session (planned, see DESIGN.md section 4)"
NOT_APPLICABLE = {("C%02d" % i): _UNBUILT for i in range(1, 21)}
NOT_APPLICABLE["C20"] = ("pure function of its arguments (BreakIntoNextProtos/CombineFromNextProtos): no clock, schedule, I/O, fault or second party for a simulator to control; "
                         "its failure modes are reached by the simulated workloads of C14 (malformed entries in a hostile ClientHello) and C07/C16 (honest payloads needing >99 chunks)")

LEVEL_TEXT = {
    "C18": "seeded exploration of interleavings of ingress/accept/close/cancel on the real MultiplexingListener under a lock-aware deterministic scheduler; invariants (exactly-once delivery xor close, no panic, Close returns, accept-after-close) checked after every step and at quiescence. Sampling: small bags usually saturate their schedule space, exhaustiveness is not claimed.",
}
TECHNIQUE = {
    "C18": "deterministic simulation: seeded lock-aware scheduler over hook-H2 points in a synctest bubble; invariants per step + bounded-liveness at quiescence; tape shrinking",
}
