// Package simnet is the in-memory, scheduler-driven transport: listeners,
// dialing and byte-stream connections with tape-chosen fragmentation and
// injected drops. Nothing here uses real sockets or real time.
package simnet

import (
	"strings"
	"fmt"
	"io"
	"net"
	"sync"
	"syscall"
	"time"

	"verifsim/kernel"
)

type Addr string

func (a Addr) Network() string { return "sim" }
func (a Addr) String() string  { return string(a) }

// Net is one simulated network.
type Net struct {
	// UnixLike: accepted connections report an empty remote address, as connections accepted on a unix socket do (every
	// peer looks the same); Peer() still tells them apart for the harness
	UnixLike  bool
	R         *kernel.Run
	mu        sync.Mutex
	listeners map[string]*Listener
	nconn     int
	Frag      bool // fragment reads (tape-chosen sizes)
	// NextFault, if set, is consulted when a connection is created and may arm a drop on it.
	NextFault func(c *Conn)
	Conns     []*Conn // client ends, in creation order
}

func New(r *kernel.Run) *Net {
	n := &Net{R: r, listeners: map[string]*Listener{}}
	r.OnClose(n.CloseAll)
	return n
}

// CloseAll closes every listener and connection (teardown).
func (n *Net) CloseAll() {
	n.mu.Lock()
	ls := make([]*Listener, 0, len(n.listeners))
	for _, l := range n.listeners {
		ls = append(ls, l)
	}
	conns := append([]*Conn(nil), n.Conns...)
	n.mu.Unlock()
	for _, l := range ls {
		l.Close()
	}
	for _, c := range conns {
		c.Reset()
	}
}

// Listener is a simulated net.Listener.
type Listener struct {
	n       *Net
	addr    Addr
	mu      sync.Mutex
	pending []*Conn
	closed  bool
	failErr error
	Accepts int
}

func (n *Net) Listen(addr string) *Listener {
	l := &Listener{n: n, addr: Addr(addr)}
	n.mu.Lock()
	n.listeners[addr] = l
	n.mu.Unlock()
	return l
}

func (l *Listener) ready() bool {
	l.mu.Lock()
	defer l.mu.Unlock()
	return len(l.pending) > 0 || l.closed || l.failErr != nil
}

func (l *Listener) Accept() (net.Conn, error) {
	l.n.R.Sched.Park("net.accept", l, l.ready)
	l.mu.Lock()
	defer l.mu.Unlock()
	switch {
	case l.failErr != nil:
		return nil, l.failErr
	case len(l.pending) > 0:
		c := l.pending[0]
		l.pending = l.pending[1:]
		l.Accepts++
		return c, nil
	default:
		return nil, net.ErrClosed
	}
}

func (l *Listener) Close() error {
	l.mu.Lock()
	defer l.mu.Unlock()
	l.closed = true
	return nil
}

// Fail makes the next Accept return a non-temporary system error.
func (l *Listener) Fail(err error) {
	l.mu.Lock()
	defer l.mu.Unlock()
	l.failErr = err
}

func (l *Listener) Addr() net.Addr { return l.addr }

func (l *Listener) Pending() int {
	l.mu.Lock()
	defer l.mu.Unlock()
	return len(l.pending)
}

// Dial connects to a listener and returns the client end immediately; the
// server end is queued for Accept.
func (n *Net) Dial(addr string, who string) (*Conn, error) {
	n.mu.Lock()
	l := n.listeners[addr]
	id := n.nconn
	n.nconn++
	n.mu.Unlock()
	if l == nil {
		return nil, fmt.Errorf("simnet: connection refused: %s", addr)
	}
	c, s := n.pair(id, who, addr)
	l.mu.Lock()
	if l.closed {
		l.mu.Unlock()
		return nil, fmt.Errorf("simnet: connection refused (listener closed): %s", addr)
	}
	l.pending = append(l.pending, s)
	l.mu.Unlock()
	n.mu.Lock()
	n.Conns = append(n.Conns, c)
	n.mu.Unlock()
	if n.NextFault != nil {
		n.NextFault(c)
	}
	return c, nil
}

// Pipe returns a connected pair without a listener.
func (n *Net) Pipe(who string) (*Conn, *Conn) {
	n.mu.Lock()
	id := n.nconn
	n.nconn++
	n.mu.Unlock()
	c, s := n.pair(id, who, "pipe")
	n.mu.Lock()
	n.Conns = append(n.Conns, c)
	n.mu.Unlock()
	return c, s
}

func (n *Net) pair(id int, who, addr string) (*Conn, *Conn) {
	sh := &shared{}
	c := &Conn{n: n, Name: fmt.Sprintf("c%d.%s.cli", id, who), sh: sh, local: Addr(who), remote: Addr(addr), DropAtWrite: -1}
	s := &Conn{n: n, Name: fmt.Sprintf("c%d.%s.srv", id, who), sh: sh, local: Addr(addr), remote: Addr(who), DropAtWrite: -1}
	c.Peer, s.Peer = s, c
	c.ID, s.ID = id, id
	return c, s
}

type shared struct {
	mu  sync.Mutex
	rst bool
}

// Conn is one end of a simulated stream connection.
type Conn struct {
	n      *Net
	ID     int
	Name   string
	Peer   *Conn
	sh     *shared
	local  Addr
	remote Addr

	buf    []byte // inbound bytes not yet read (guarded by sh.mu)
	eof    bool   // peer closed: EOF after buf drained
	closed bool   // local Close called

	CloseCount int
	Writes     int   // number of Write calls made on this end
	WrittenB   int64 // bytes written by this end
	ReadB      int64
	FirstWrite []byte // copy of everything this end wrote (capped) - used to capture ClientHellos
	Capture    bool

	// fault plan: on the DropAtWrite-th Write (0-based) of this end the
	// connection is reset; DropKeep bytes of that write are still delivered.
	DropAtWrite int
	DropKeep    int
	DropFired   bool
	// CloseErr, if set, is what Close reports (the connection is closed all the same), e.g. a reset by the peer.
	CloseErr error
	// HalfCloseAtWrite: after that write the peer sees EOF but this end keeps reading.
}

// ErrReset has the shape a real reset has: a *net.OpError (a net.Error that is neither a timeout nor temporary).
var ErrReset error = &net.OpError{Op: "read", Net: "sim", Err: syscall.ECONNRESET}

func (c *Conn) readable() bool {
	c.sh.mu.Lock()
	defer c.sh.mu.Unlock()
	return len(c.buf) > 0 || c.eof || c.sh.rst || c.closed
}

func (c *Conn) Read(p []byte) (int, error) {
	c.n.R.Sched.Park("net.read", c, c.readable)
	c.sh.mu.Lock()
	defer c.sh.mu.Unlock()
	switch {
	case c.closed:
		return 0, net.ErrClosed
	case c.sh.rst:
		return 0, ErrReset
	case len(c.buf) > 0:
		n := len(c.buf)
		if n > len(p) {
			n = len(p)
		}
		if c.n.Frag && n > 1 {
			// tape-chosen fragment size: mostly whole, sometimes a random split, rarely tiny
			switch c.n.R.Tape.Draw(8) {
			case 0:
				n = 1 + c.n.R.Tape.Draw(n)
			case 1:
				if n > 3 {
					n = 1 + c.n.R.Tape.Draw(3)
				}
			}
		}
		copy(p, c.buf[:n])
		c.buf = c.buf[n:]
		c.ReadB += int64(n)
		return n, nil
	case c.eof:
		return 0, io.EOF
	default:
		// only reachable during teardown (scheduler killed) or in free mode
		return 0, io.EOF
	}
}

func (c *Conn) Write(p []byte) (int, error) {
	c.n.R.Sched.Park("net.write", c, nil)
	c.sh.mu.Lock()
	defer c.sh.mu.Unlock()
	if c.closed {
		return 0, net.ErrClosed
	}
	if c.sh.rst {
		return 0, ErrReset
	}
	idx := c.Writes
	c.Writes++
	if c.Capture && len(c.FirstWrite) < 1<<17 {
		c.FirstWrite = append(c.FirstWrite, p...)
	}
	if idx == c.DropAtWrite {
		keep := c.DropKeep
		if keep > len(p) {
			keep = len(p)
		}
		c.Peer.buf = append(c.Peer.buf, p[:keep]...)
		c.DropFired = true
		// the network drops the connection: peer sees the kept bytes then a reset/EOF
		c.Peer.eof = true
		c.sh.rst = keep == 0
		if keep > 0 {
			// sender finds out on its next operation
			c.eof = true
		}
		return len(p), nil
	}
	if c.Peer.closed {
		return 0, ErrReset
	}
	c.Peer.buf = append(c.Peer.buf, p...)
	c.WrittenB += int64(len(p))
	return len(p), nil
}

func (c *Conn) Close() error {
	c.sh.mu.Lock()
	defer c.sh.mu.Unlock()
	c.CloseCount++
	if c.closed {
		return nil
	}
	c.closed = true
	c.Peer.eof = true
	return c.CloseErr
}

// Reset aborts the connection from outside (network failure).
func (c *Conn) Reset() {
	c.sh.mu.Lock()
	defer c.sh.mu.Unlock()
	c.sh.rst = true
}

// Closed reports whether this end was closed locally.
func (c *Conn) Closed() bool {
	c.sh.mu.Lock()
	defer c.sh.mu.Unlock()
	return c.closed
}

func (c *Conn) Closes() int {
	c.sh.mu.Lock()
	defer c.sh.mu.Unlock()
	return c.CloseCount
}

// Inject appends bytes to this end's inbound buffer as if the peer had sent them.
func (c *Conn) Inject(b []byte) {
	c.sh.mu.Lock()
	defer c.sh.mu.Unlock()
	c.buf = append(c.buf, b...)
}

func (c *Conn) LocalAddr() net.Addr                { return c.local }
func (c *Conn) RemoteAddr() net.Addr {
	if c.n != nil && c.n.UnixLike && strings.HasSuffix(c.Name, ".srv") {
		return Addr("")
	}
	return c.remote
}

// Peer2 is the name of the other end (the dialing actor for an accepted connection), whatever RemoteAddr reports.
func (c *Conn) Peer2() string { return string(c.remote) }
func (c *Conn) SetDeadline(t time.Time) error      { return nil }
func (c *Conn) SetReadDeadline(t time.Time) error  { return nil }
func (c *Conn) SetWriteDeadline(t time.Time) error { return nil }

var _ net.Conn = (*Conn)(nil)
var _ net.Listener = (*Listener)(nil)
