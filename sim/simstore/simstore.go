// Package simstore decorates a real nodeenrollment storage back end: it
// records every call, yields to the scheduler, injects faults chosen by the
// run's plan and controls the order of multi-record results.
package simstore

import (
	"bytes"
	"context"
	"errors"
	"fmt"
	"sort"

	"github.com/hashicorp/nodeenrollment"
	"github.com/hashicorp/nodeenrollment/types"
	"github.com/mr-tron/base58"
	"google.golang.org/protobuf/proto"
	"google.golang.org/protobuf/reflect/protoreflect"

	"verifsim/kernel"
)

// Call is one recorded storage operation.
type Call struct {
	Seq   int
	Kind  string // store load remove list loadbynodeid
	Type  string
	Id    string
	Bytes []byte // marshaled message handed to Store
	Err   string
	Fault string
}

// Fault kinds.
const (
	FaultErr      = "err-generic"
	FaultNotFound = "err-notfound"
	FaultCancel   = "ctx-cancel"
	// FaultLostAck: the operation is applied to the back end, but the caller is told it failed (a write whose
	// acknowledgement was lost); for reads it equals err-generic.
	FaultLostAck = "err-after-apply"
	// FaultCrash: this and every later operation fails and nothing more is applied (the process lost its storage /
	// died at this point); cleared by ClearFaults, which models the restart over the durable state.
	FaultCrash = "crash"
	// FaultDeadline: the back end gives up on its own (an internal timeout): the operation fails with
	// context.DeadlineExceeded although the CALLER's context is still live.
	FaultDeadline = "err-own-deadline"
)

var errApplyFirst = errors.New("simstore: apply, then fail")

var ErrInjected = errors.New("simstore: injected storage failure")

// Store is the decorator. It implements nodeenrollment.Storage; use
// WithNodeIdLoader to obtain a value that also implements NodeIdLoader.
type Store struct {
	R     *kernel.Run
	Name  string
	Inner nodeenrollment.Storage
	Calls []Call
	seq   int

	// fault plan: map from absolute call sequence number to fault kind
	Faults map[int]string
	// crashed: set by a crash fault; every later call fails until ClearFaults
	crashed bool
	// Cancel, if set, is invoked by a ctx-cancel fault (cancels the context the harness handed to the library)
	Cancel func()
	Fired  map[string]int

	// PermuteList makes List results a tape-chosen permutation (default: sorted)
	PermuteList bool
	// NodeOrder decides the order of LoadByNodeId results; nil = sorted by id.
	NodeOrder func(ids []string) []string
	// NativeLookup: LoadByNodeId is delegated to the back end's own implementation when it has one (the store-once back
	// end does); order and multiplicity of the result are then the back end's, not tape choices.
	NativeLookup bool
	// EmptyOnMiss: LoadByNodeId answers "no records under this node ID" with an empty set and a nil error
	// (what a SQL-backed implementation naturally does) instead of ErrNotFound.
	EmptyOnMiss bool

	// secret scanning (C12 invariant)
	Secrets  []Secret
	OnSecret func(msgType, field, secretName string)
}

// Secret is a byte string that must never reach storage in clear.
type Secret struct {
	Name  string
	Bytes []byte
}

func New(r *kernel.Run, name string, inner nodeenrollment.Storage) *Store {
	return &Store{R: r, Name: name, Inner: inner, Faults: map[int]string{}, Fired: map[string]int{}}
}

// NextSeq is the sequence number the next call will get.
func (s *Store) NextSeq() int { return s.seq }

// ArmAt arms a fault at the k-th call from now (0 = next call).
func (s *Store) ArmAt(k int, kind string) { s.Faults[s.seq+k] = kind }

func (s *Store) ClearFaults() { s.Faults = map[int]string{}; s.crashed = false }

func (s *Store) AddSecret(name string, b []byte) {
	if len(b) >= 8 {
		s.Secrets = append(s.Secrets, Secret{name, append([]byte(nil), b...)})
	}
}

func typeName(m proto.Message) string {
	if m == nil {
		return "nil"
	}
	return string(m.ProtoReflect().Descriptor().Name())
}

func (s *Store) begin(ctx context.Context, kind string, m proto.Message, id string) (*Call, error) {
	c := Call{Seq: s.seq, Kind: kind, Type: typeName(m), Id: id}
	s.seq++
	s.R.Sched.Park("store."+kind, s, nil)
	s.R.Count("ops.storage."+kind, 1)
	f, ok := s.Faults[c.Seq]
	if s.crashed {
		c.Fault, c.Err = "after-crash", ErrInjected.Error()
		s.R.Count("probe.ops_refused_after_crash", 1)
		s.Calls = append(s.Calls, c)
		return nil, fmt.Errorf("%w (call %d %s %s after crash)", ErrInjected, c.Seq, kind, c.Type)
	}
	if ok {
		c.Fault = f
		s.Fired[f]++
		s.R.Count("fault."+f, 1)
		var err error
		switch f {
		case FaultCrash:
			s.crashed = true
			err = fmt.Errorf("%w (call %d %s %s: crash)", ErrInjected, c.Seq, kind, c.Type)
		case FaultLostAck:
			if kind == "store" || kind == "remove" {
				c.Err = ErrInjected.Error()
				s.Calls = append(s.Calls, c)
				return &s.Calls[len(s.Calls)-1], errApplyFirst
			}
			err = fmt.Errorf("%w (call %d %s %s)", ErrInjected, c.Seq, kind, c.Type)
		case FaultErr:
			err = fmt.Errorf("%w (call %d %s %s)", ErrInjected, c.Seq, kind, c.Type)
		case FaultNotFound:
			err = fmt.Errorf("injected: %w", nodeenrollment.ErrNotFound)
		case FaultDeadline:
			err = fmt.Errorf("simstore: back end timed out (call %d %s %s): %w", c.Seq, kind, c.Type, context.DeadlineExceeded)
		case FaultCancel:
			if s.Cancel != nil {
				s.Cancel()
			}
			err = context.Canceled
			if ctx.Err() != nil {
				err = ctx.Err()
			}
		}
		c.Err = err.Error()
		s.Calls = append(s.Calls, c)
		return nil, err
	}
	s.Calls = append(s.Calls, c)
	return &s.Calls[len(s.Calls)-1], nil
}

func safeID(m nodeenrollment.MessageWithId) (id string) {
	defer func() { recover() }()
	if nodeenrollment.IsNil(m) {
		return ""
	}
	return m.GetId()
}

func (s *Store) Store(ctx context.Context, m nodeenrollment.MessageWithId) error {
	c, err := s.begin(ctx, "store", m, safeID(m))
	if err == errApplyFirst {
		if !nodeenrollment.IsNil(m) {
			if b, e := proto.Marshal(m); e == nil {
				c.Bytes = b
				s.scan(m, b)
			}
		}
		if e := s.Inner.Store(ctx, m); e != nil {
			return e
		}
		s.R.Count("probe.write_applied_ack_lost", 1)
		return fmt.Errorf("%w (call %d store %s: applied, acknowledgement lost)", ErrInjected, c.Seq, c.Type)
	}
	if err != nil {
		return err
	}
	if !nodeenrollment.IsNil(m) {
		if b, e := proto.Marshal(m); e == nil {
			c.Bytes = b
			s.scan(m, b)
		}
	}
	err = s.Inner.Store(ctx, m)
	if err != nil {
		s.lastErr(err)
	}
	return err
}

func (s *Store) lastErr(err error) { s.Calls[len(s.Calls)-1].Err = err.Error() }

func (s *Store) Load(ctx context.Context, m nodeenrollment.MessageWithId) error {
	_, err := s.begin(ctx, "load", m, safeID(m))
	if err != nil {
		return err
	}
	err = s.Inner.Load(ctx, m)
	if err != nil {
		s.lastErr(err)
	}
	return err
}

func (s *Store) Remove(ctx context.Context, m nodeenrollment.MessageWithId) error {
	c, err := s.begin(ctx, "remove", m, safeID(m))
	if err == errApplyFirst {
		if e := s.Inner.Remove(ctx, m); e != nil {
			return e
		}
		s.R.Count("probe.write_applied_ack_lost", 1)
		return fmt.Errorf("%w (call %d remove %s: applied, acknowledgement lost)", ErrInjected, c.Seq, c.Type)
	}
	if err != nil {
		return err
	}
	err = s.Inner.Remove(ctx, m)
	if err != nil {
		s.lastErr(err)
	}
	return err
}

func (s *Store) List(ctx context.Context, m proto.Message) ([]string, error) {
	_, err := s.begin(ctx, "list", m, "")
	if err != nil {
		return nil, err
	}
	ids, err := s.Inner.List(ctx, m)
	if err != nil {
		s.lastErr(err)
		return nil, err
	}
	ids = append([]string(nil), ids...)
	sort.Strings(ids)
	if s.PermuteList && len(ids) > 1 {
		p := s.R.Tape.Perm(len(ids))
		out := make([]string, len(ids))
		for i, j := range p {
			out[i] = ids[j]
		}
		ids = out
	}
	return ids, nil
}

// NL is a Store that also implements NodeIdLoader (lookup implemented here so
// that order and multiplicity are under the simulator's control).
type NL struct{ S *Store }

func (s *Store) WithNodeIdLoader() *NL { return &NL{s} }

func (n *NL) Store(ctx context.Context, m nodeenrollment.MessageWithId) error {
	return n.S.Store(ctx, m)
}
func (n *NL) Load(ctx context.Context, m nodeenrollment.MessageWithId) error { return n.S.Load(ctx, m) }
func (n *NL) Remove(ctx context.Context, m nodeenrollment.MessageWithId) error {
	return n.S.Remove(ctx, m)
}
func (n *NL) List(ctx context.Context, m proto.Message) ([]string, error) { return n.S.List(ctx, m) }

func (n *NL) LoadByNodeId(ctx context.Context, m nodeenrollment.MessageWithNodeId) error {
	s := n.S
	_, err := s.begin(ctx, "loadbynodeid", m, m.GetNodeId())
	if err != nil {
		return err
	}
	if nl, ok := s.Inner.(nodeenrollment.NodeIdLoader); ok && s.NativeLookup {
		s.R.Count("ops.storage.native_lookup_by_node_id", 1)
		return nl.LoadByNodeId(ctx, m)
	}
	if m.GetNodeId() == "" {
		return errors.New("simstore: node id required")
	}
	set, ok := m.(*types.NodeInformationSet)
	if !ok {
		return fmt.Errorf("simstore: unsupported type %T", m)
	}
	ids, err := s.Inner.List(ctx, (*types.NodeInformation)(nil))
	if err != nil {
		return err
	}
	ids = append([]string(nil), ids...)
	sort.Strings(ids)
	var match []string
	recs := map[string]*types.NodeInformation{}
	for _, id := range ids {
		n := &types.NodeInformation{Id: id}
		if err := s.Inner.Load(ctx, n); err != nil {
			continue
		}
		if n.NodeId == m.GetNodeId() {
			match = append(match, id)
			recs[id] = n
		}
	}
	if len(match) == 0 {
		if s.EmptyOnMiss {
			set.Nodes = nil
			return nil
		}
		return nodeenrollment.ErrNotFound
	}
	if s.NodeOrder != nil {
		match = s.NodeOrder(match)
	}
	set.Nodes = nil
	for _, id := range match {
		set.Nodes = append(set.Nodes, recs[id])
	}
	return nil
}

var _ nodeenrollment.Storage = (*Store)(nil)
var _ nodeenrollment.NodeIdLoader = (*NL)(nil)

// scan searches the message handed to Store for registered secrets.
func (s *Store) scan(m proto.Message, marshaled []byte) {
	if len(s.Secrets) == 0 || s.OnSecret == nil {
		return
	}
	for _, sec := range s.Secrets {
		forms := [][]byte{sec.Bytes, []byte(base58.Encode(sec.Bytes))}
		hit := false
		for _, f := range forms {
			if bytes.Contains(marshaled, f) {
				hit = true
			}
		}
		if !hit {
			continue
		}
		field := findField(m.ProtoReflect(), sec.Bytes, "")
		if field == "" {
			field = findField(m.ProtoReflect(), []byte(base58.Encode(sec.Bytes)), "")
		}
		if field == "" {
			field = "?"
		}
		s.OnSecret(typeName(m), field, sec.Name)
	}
}

// FindField names the field of m that contains secret (raw or base58), "" if none.
func FindField(m proto.Message, secret []byte) string {
	if f := findField(m.ProtoReflect(), secret, ""); f != "" {
		return f
	}
	return findField(m.ProtoReflect(), []byte(base58.Encode(secret)), "")
}

func findField(m protoreflect.Message, secret []byte, path string) string {
	found := ""
	m.Range(func(fd protoreflect.FieldDescriptor, v protoreflect.Value) bool {
		name := path + string(fd.Name())
		check := func(v protoreflect.Value) string {
			switch fd.Kind() {
			case protoreflect.BytesKind:
				if bytes.Contains(v.Bytes(), secret) {
					return name
				}
			case protoreflect.StringKind:
				if bytes.Contains([]byte(v.String()), secret) {
					return name
				}
			case protoreflect.MessageKind:
				if f := findField(v.Message(), secret, name+"."); f != "" {
					return f
				}
				if b, err := proto.Marshal(v.Message().Interface()); err == nil && len(b) > 0 && bytes.Equal(b, secret) {
					return name
				}
			}
			return ""
		}
		switch {
		case fd.IsList():
			l := v.List()
			for i := 0; i < l.Len(); i++ {
				if f := check(l.Get(i)); f != "" {
					found = f
					return false
				}
			}
		case fd.IsMap():
			// map values of message kind (Struct fields): check marshaled containment only
		default:
			if f := check(v); f != "" {
				found = f
				return false
			}
		}
		return true
	})
	return found
}

// Snapshot returns id -> marshaled bytes of every record of a listable type
// read straight from the inner back end (no faults, no recording).
func Snapshot(ctx context.Context, inner nodeenrollment.Storage, typ nodeenrollment.MessageWithId) map[string][]byte {
	out := map[string][]byte{}
	ids, err := inner.List(ctx, typ)
	if err != nil {
		return out
	}
	for _, id := range ids {
		m := typ.ProtoReflect().New().Interface().(nodeenrollment.MessageWithId)
		m.ProtoReflect().Set(m.ProtoReflect().Descriptor().Fields().ByName("id"), protoreflect.ValueOfString(id))
		if err := inner.Load(ctx, m); err == nil {
			b, _ := proto.MarshalOptions{Deterministic: true}.Marshal(m)
			out[id] = b
		}
	}
	return out
}
