//go:build verif

package engines

import (
	"crypto/tls"
	"crypto/x509"
	"errors"
	"fmt"
	nodetls "github.com/hashicorp/nodeenrollment/tls"
	"net"
	"sort"
	"strings"

	"github.com/hashicorp/nodeenrollment"
	nodenet "github.com/hashicorp/nodeenrollment/net"
	"github.com/hashicorp/nodeenrollment/protocol"
	"github.com/hashicorp/nodeenrollment/rotation"
	"github.com/hashicorp/nodeenrollment/types"

	"verifsim/kernel"
)

type subGot struct {
	conn net.Conn
	err  error
}

type subListener struct {
	name   string
	native bool
	ln     net.Listener
	got    []subGot
	seen   int
	done   bool
	closed bool // the application closed this sub-listener while the split listener keeps running
}

// C17: split listener gives authenticated sub-listeners only authenticated connections.
func propC17(r *kernel.Run) {
	tp := r.Tape
	srv := NewWorld(r, "server", Pick2(tp, "inmem", "storeonce"), tp.Draw(2) == 0, tp.Draw(3) == 0)
	if _, err := rotation.RotateRootCertificates(srv.Ctx, srv.Storage, srv.Opts()...); err != nil {
		r.HarnessErr("roots: %v", err)
	}
	baseKind := Pick2(tp, "none", "no-alpn", "fixed", "mirror", "mirror")
	var base *tls.Config
	bc, _ := selfSignedTLS("app.example", x509.ExtKeyUsageServerAuth)
	switch baseKind {
	case "no-alpn":
		base = &tls.Config{Certificates: []tls.Certificate{bc}}
	case "fixed":
		base = &tls.Config{Certificates: []tls.Certificate{bc}, NextProtos: []string{"h2", "grpc-exp"}}
	case "mirror":
		// a permissive application config that accepts whatever protocol the client offers
		base = &tls.Config{GetConfigForClient: func(h *tls.ClientHelloInfo) (*tls.Config, error) {
			return &tls.Config{Certificates: []tls.Certificate{bc}, NextProtos: append([]string(nil), h.SupportedProtos...)}, nil
		}}
	}
	w := NewWire(r, srv, base, srv.Opts())
	mm := installMuxHooks(r)
	r.Sched.OnRelease = mm.noteRelease
	sl, err := nodenet.NewSplitListener(w.IL)
	if err != nil {
		r.HarnessErr("split listener: %v", err)
	}
	// registered sub-listeners
	pool := []string{"boundary-worker", "proto-b", "Proto-C/2", nodenet.AuthenticatedNonSpecificNextProto, nodenet.UnauthenticatedNextProto}
	subs := map[string]*subListener{}
	var names []string
	registerSub := func(n string) {
		native := tp.Draw(2) == 0
		ln, err := sl.GetListener(n, nodeenrollment.WithNativeConns(native))
		if err != nil {
			r.Violate("get-listener", "get-listener-failed", "%v", err)
		}
		if tp.Draw(3) == 0 {
			// asking again returns the same listener (whatever option is passed the second time)
			ln2, err := sl.GetListener(n, nodeenrollment.WithNativeConns(!native))
			if err != nil || ln2 != ln {
				r.Violate("get-listener", "get-listener-not-idempotent", "second GetListener(%q) returned a different listener (err %v)", n, err)
			}
		}
		s := &subListener{name: n, native: native, ln: ln}
		subs[n] = s
		names = append(names, n)
		sort.Strings(names)
		r.Sched.Go("sub:"+n, "sub-acceptor", func() {
			for {
				c, err := ln.Accept()
				s.got = append(s.got, subGot{c, err})
				if err != nil {
					s.done = true
					return
				}
			}
		})
	}
	for _, n := range pool {
		if tp.Draw(2) == 0 {
			continue
		}
		registerSub(n)
	}
	sort.Strings(names)
	var startErr error
	startDone := false
	r.Sched.Go("split", "split", func() {
		startErr = sl.Start()
		startDone = true
	})
	nodeW := NewWorld(r, "node", "inmem", false, false)
	enrollStored(r, srv, nodeW, nil, "")
	pendingW := NewWorld(r, "pending", "inmem", false, false)
	if _, err := types.NewNodeCredentials(pendingW.Ctx, pendingW.Storage); err != nil {
		r.HarnessErr("pending creds: %v", err)
	}
	w.Quiesce()

	// newDeliveries returns where the connection(s) of the last client ended up
	newDeliveries := func() (where []string, conns []net.Conn) {
		for _, n := range names {
			s := subs[n]
			for _, g := range s.got[s.seen:] {
				if g.err == nil {
					where = append(where, n)
					conns = append(conns, g.conn)
				}
			}
			s.seen = len(s.got)
		}
		return
	}
	checkType := func(n string, c net.Conn, desc string) *tls.Conn {
		s := subs[n]
		switch v := c.(type) {
		case *protocol.Conn:
			if !s.native {
				r.Violate("conn-type", "native-conn-without-request", "sub-listener %q handed out a *protocol.Conn although native connections were not requested: %s", n, desc)
			}
			return v.Conn
		case *tls.Conn:
			if s.native {
				r.Violate("conn-type", "plain-conn-despite-native", "sub-listener %q handed out a *tls.Conn although native connections were requested: %s", n, desc)
			}
			return v
		default:
			r.Violate("conn-type", "unexpected-conn-type", "sub-listener %q handed out a %T: %s", n, c, desc)
		}
		return nil
	}
	registered := func(n string) bool { return subs[n] != nil }

	ncl := tp.Range(3, r.Deep(9, 24))
	var hist []string
	for ci := 0; ci < ncl; ci++ {
		kind := Pick2(tp, "authenticated", "authenticated", "authenticated", "base-tls", "base-tls", "base-tls", "fetch-only", "garbage")
		// sub-listeners may also be obtained while the split listener is already running
		if tp.Draw(5) == 0 {
			var left []string
			for _, n := range pool {
				if subs[n] == nil {
					left = append(left, n)
				}
			}
			if len(left) > 0 {
				registerSub(left[tp.Draw(len(left))])
				w.Quiesce()
				r.Count("ops.late_get_listener", 1)
			}
		}
		// the application may close one of its protocol-specific sub-listeners while the rest keeps running. The name stays
		// registered: connections offering it are closed, they do not become another sub-listener's
		if tp.Draw(7) == 0 {
			var open []string
			for _, n := range names {
				if !subs[n].closed && n != nodenet.AuthenticatedNonSpecificNextProto && n != nodenet.UnauthenticatedNextProto {
					open = append(open, n)
				}
			}
			if len(open) > 0 {
				n := open[tp.Draw(len(open))]
				ln := subs[n].ln
				r.Sched.Go("closer:"+n, "closer", func() { ln.Close() })
				w.Quiesce()
				subs[n].closed = true
				hist = append(hist, fmt.Sprintf("application closed sub-listener %q", n))
				r.Count("ops.specific_sub_listener_closed_mid_run", 1)
			}
		}
		several := false
		if ci == ncl-1 {
			// last client: an authenticated client whose extras may match several registered sub-listeners. Which one
			// receives it is decided by sync.Map.Range inside the library (not ours), so from here on the scheduler runs
			// in frozen mode: no tape draws, no schedule hashing; the oracles are order-independent.
			r.Sched.Frozen = true
			kind, several = "authenticated", true
		}
		switch kind {
		case "authenticated":
			var extras []string
			nreg := 0
			for _, cand := range []string{"boundary-worker", "proto-b", "Proto-C/2", "proto-unregistered", "proto-c/2", nodenet.AuthenticatedNonSpecificNextProto, nodenet.UnauthenticatedNextProto, "v1-nodee-", "h2"} {
				if tp.Draw(4) == 0 || (several && tp.Draw(2) == 0) {
					if subs[cand] != nil {
						if nreg >= 1 && !several {
							continue
						}
						nreg++
					}
					extras = append(extras, cand)
				}
			}
			if nreg > 1 {
				r.Count("probe.several_registered_names_offered", 1)
			}
			var opts []nodeenrollment.Option
			if extras != nil {
				opts = append(opts, nodeenrollment.WithExtraAlpnProtos(extras))
			}
			if tp.Draw(5) == 0 {
				// kilobytes of client state: the request spreads over dozens of ALPN entries, the extras come after them
				opts = append(opts, nodeenrollment.WithState(bigStruct(r, []int{2000, 5000, 9000}[tp.Draw(3)])))
				r.Count("cfg.large_client_state", 1)
			}
			var res *dialRes
			placement := "behind the request (Dial)"
			if len(extras) > 0 && tp.Draw(4) == 0 {
				// an application that takes the client configuration from tls.ClientConfigs and lists its own protocols
				// itself: in front of the request entries, or behind the certificate preference
				creds, err := types.LoadNodeCredentials(contextBG, nodeW.Storage, nodeenrollment.CurrentId, nodeW.Opts()...)
				if err != nil {
					r.HarnessErr("node credentials: %v", err)
				}
				cfgs, err := nodetls.ClientConfigs(contextBG, creds, nodeenrollment.WithServerName("server"))
				if err != nil || len(cfgs) == 0 {
					r.Violate("routing", "no-client-config", "%v", err)
				}
				cfg := cfgs[0]
				if tp.Draw(2) == 0 {
					cfg.NextProtos = append(append([]string{}, extras...), cfg.NextProtos...)
					placement = "in front of the request entries (own config)"
				} else {
					cfg.NextProtos = append(append([]string{}, cfg.NextProtos...), extras...)
					placement = "behind the certificate preference (own config)"
				}
				res = w.rawClient(fmt.Sprintf("auth%d", r.NextID()), cfg)
				r.Count("ops.authenticated_client_with_own_protocol_placement", 1)
			} else {
				res = w.DialHonest(fmt.Sprintf("auth%d", r.NextID()), nodeW, w.Addr, opts...)
			}
			w.Quiesce()
			where, conns := newDeliveries()
			desc := fmt.Sprintf("authenticated client extras=%q %s registered=%q -> delivered to %q", extras, placement, names, where)
			hist = append(hist, desc)
			r.Count("ops.authenticated_client", 1)
			if res.err != nil {
				r.Violate("routing", "honest-dial-failed", "%s: %v", desc, shortErr(res.err))
			}
			var specific []string
			offeredClosed := false
			for _, e := range extras {
				if registered(e) {
					if subs[e].closed {
						offeredClosed = true
						continue
					}
					specific = append(specific, e)
				}
			}
			if offeredClosed {
				r.Count("probe.client_offers_closed_sub_listeners_protocol", 1)
			}
			switch {
			case len(where) > 1:
				r.Violate("routing", "delivered-more-than-once", "%s", desc)
			case offeredClosed:
				// (which of several offered names is found first is the library's; the connection may be closed or reach
				// another offered, open sub-listener - never one it did not offer)
				if len(where) == 1 && !contains(specific, where[0]) {
					r.Violate("routing", "closed-sub-listeners-connection-given-to-another", "%s (its protocol's sub-listener is registered and closed)", desc)
				}
			case len(specific) > 0:
				if len(where) != 1 || !contains(specific, where[0]) {
					r.Violate("routing", "not-delivered-to-offered-protocol", "%s (want one of %q)", desc, specific)
				}
			case registered(nodenet.AuthenticatedNonSpecificNextProto):
				if len(where) != 1 || where[0] != nodenet.AuthenticatedNonSpecificNextProto {
					r.Violate("routing", "not-delivered-to-non-specific", "%s", desc)
				}
			default:
				if len(where) != 0 {
					r.Violate("routing", "delivered-without-matching-listener", "%s", desc)
				}
				// closed when no sub-listener matches: the node's connection sees EOF
			}
			for i, c := range conns {
				tc := checkType(where[i], c, desc)
				if tc != nil {
					cs := tc.ConnectionState()
					if !cs.HandshakeComplete || !strings.HasPrefix(cs.NegotiatedProtocol, nodeenrollment.AuthenticateNodeNextProtoV1Prefix) {
						r.Violate("only-authenticated", "unauthenticated-on-authenticated-listener", "%s: negotiated %q", desc, cs.NegotiatedProtocol)
					}
				}
				c.Close()
			}
			if res.conn != nil {
				res.conn.Close()
			}
			if !several {
				r.FP("authenticated", extras, names, where)
			}
		case "base-tls":
			offer := []string{}
			for _, cand := range []string{"h2", "grpc-exp", "boundary-worker", nodenet.AuthenticatedNonSpecificNextProto, nodenet.UnauthenticatedNextProto,
				nodeenrollment.CertificatePreferenceV1Prefix + "whatever", nodeenrollment.CertificatePreferenceV1Prefix, "V1-NODEE-AUTHENTICATE-NODE-00-AAAA", "v1-nodee-authenticate-nod", "proto-b"} {
				if tp.Draw(3) == 0 {
					offer = append(offer, cand)
				}
			}
			// tape-chosen order (the server's choice depends on it with a mirroring config)
			p := tp.Perm(len(offer))
			shuffled := make([]string, len(offer))
			for i, j := range p {
				shuffled[i] = offer[j]
			}
			offer = shuffled
			res := w.rawClient(fmt.Sprintf("base%d", r.NextID()), &tls.Config{NextProtos: offer, InsecureSkipVerify: true, ServerName: "app.example"})
			w.Quiesce()
			where, conns := newDeliveries()
			neg := ""
			if tc, ok := res.conn.(*tls.Conn); ok {
				neg = tc.ConnectionState().NegotiatedProtocol
			}
			desc := fmt.Sprintf("base-TLS client (application config %s) offering %q, negotiated %q, registered=%q -> delivered to %q", baseKind, offer, neg, names, where)
			hist = append(hist, desc)
			r.Count("ops.base_tls_client", 1)
			for i, n := range where {
				if n != nodenet.UnauthenticatedNextProto {
					r.Violate("only-authenticated", "unauthenticated-on-authenticated-listener", "%s", desc)
				}
				checkType(n, conns[i], desc)
				conns[i].Close()
			}
			if res.err == nil && registered(nodenet.UnauthenticatedNextProto) && len(where) != 1 {
				r.Violate("routing", "unauthenticated-connection-not-delivered", "%s", desc)
			}
			if res.conn != nil {
				res.conn.Close()
			}
			r.FP("base-tls", baseKind, offer, names, where, neg)
		case "fetch-only":
			res := w.DialHonest(fmt.Sprintf("fetch%d", r.NextID()), pendingW, w.Addr)
			w.Quiesce()
			where, conns := newDeliveries()
			desc := fmt.Sprintf("fetch-only client (unauthorized node) -> delivered to %q, dial error %s", where, shortErr(res.err))
			hist = append(hist, desc)
			r.Count("ops.fetch_only_client", 1)
			if len(where) != 0 {
				r.Violate("only-authenticated", "fetch-connection-delivered", "%s", desc)
			}
			for _, c := range conns {
				c.Close()
			}
			r.FP("fetch-only", names)
		case "garbage":
			name := fmt.Sprintf("garbage%d", r.NextID())
			payload := tp.Bytes(tp.Range(1, 200))
			r.Sched.Go(name, "adversary", func() {
				c, err := w.Net.Dial(w.Addr, name)
				if err != nil {
					return
				}
				c.Write(payload)
				c.Close()
			})
			w.Quiesce()
			where, conns := newDeliveries()
			r.Count("ops.garbage_client", 1)
			if len(where) != 0 {
				r.Violate("only-authenticated", "garbage-connection-delivered", "raw garbage was delivered to %q", where)
			}
			for _, c := range conns {
				c.Close()
			}
		}
		w.Quiesce()
		w.Take()
		r.Count("cases", 1)
		if startDone {
			r.Violate("split-loop", "split-loop-stopped-early", "SplitListener.Start returned %v while the base listener is open", startErr)
		}
	}
	// close the base listener: every sub-listener reports closed
	mm.allCtxDone = true
	w.Ln.Close()
	w.Quiesce()
	if !startDone || !errors.Is(startErr, net.ErrClosed) {
		r.Violate("closure", "start-did-not-return-closed", "after closing the base listener Start returned done=%v err=%v; parked=%v", startDone, startErr, r.Sched.ParkedAt())
	}
	for _, n := range names {
		s := subs[n]
		if !s.done || len(s.got) == 0 || s.got[len(s.got)-1].err != net.ErrClosed {
			r.Violate("closure", "sub-listener-not-closed", "sub-listener %q did not report closed after the base listener was closed (done=%v); parked=%v", n, s.done, r.Sched.ParkedAt())
		}
	}
	if _, err := sl.GetListener("late-listener"); !errors.Is(err, net.ErrClosed) {
		r.Violate("closure", "get-listener-after-close", "GetListener after closure returned %v", err)
	}
	if r.Index%150 == 0 {
		if len(hist) > 8 {
			hist = hist[:8]
		}
		r.SetSample(map[string]any{"sub_listeners": names, "application_base_config": baseKind, "clients": hist})
	}
}

func contains(l []string, s string) bool {
	for _, x := range l {
		if x == s {
			return true
		}
	}
	return false
}

func init() {
	register(&Prop{ID: "C17", Engine: propC17})
}
