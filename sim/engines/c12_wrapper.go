//go:build verif

package engines

import (
	"bytes"
	"context"
	"crypto/rand"
	"errors"
	"fmt"
	"strings"
	"time"

	wrapping "github.com/hashicorp/go-kms-wrapping/v2"
	"github.com/hashicorp/go-kms-wrapping/v2/extras/multi"
	"github.com/hashicorp/nodeenrollment"
	"github.com/hashicorp/nodeenrollment/registration"
	"github.com/hashicorp/nodeenrollment/rotation"
	"github.com/hashicorp/nodeenrollment/types"
	"github.com/mr-tron/base58"
	"google.golang.org/protobuf/proto"
	"google.golang.org/protobuf/types/known/timestamppb"

	"verifsim/kernel"
	"verifsim/simstore"
)

// flakyWrapper is a storage wrapper whose Encrypt fails at a tape-chosen call (a KMS outage); KeyId and Decrypt keep working.
type flakyWrapper struct {
	wrapping.Wrapper
	failAt int
	calls  int
	fired  bool
}

func (f *flakyWrapper) Encrypt(ctx context.Context, pt []byte, opt ...wrapping.Option) (*wrapping.BlobInfo, error) {
	f.calls++
	if f.calls == f.failAt {
		f.fired = true
		return nil, errors.New("simulated: KMS unavailable")
	}
	return f.Wrapper.Encrypt(ctx, pt, opt...)
}

// sealedFields lists, per record type, the fields that must hold a sealed blob whenever wrapping_key_id is set.
func checkSealedFieldsAreSealed(r *kernel.Run, stores ...*simstore.Store) {
	isBlob := func(b []byte) bool {
		bi := new(wrapping.BlobInfo)
		return len(b) > 0 && proto.Unmarshal(b, bi) == nil && len(bi.Ciphertext) >= 12+16
	}
	for _, st := range stores {
		for _, c := range st.Calls {
			if c.Kind != "store" || len(c.Bytes) == 0 {
				continue
			}
			bad := ""
			switch c.Type {
			case "NodeInformation":
				m := new(types.NodeInformation)
				if proto.Unmarshal(c.Bytes, m) == nil && m.WrappingKeyId != "" && len(m.ServerEncryptionPrivateKeyBytes) > 0 && !isBlob(m.ServerEncryptionPrivateKeyBytes) {
					bad = "server_encryption_private_key_bytes"
				}
			case "NodeCredentials":
				m := new(types.NodeCredentials)
				if proto.Unmarshal(c.Bytes, m) == nil && m.WrappingKeyId != "" {
					if !isBlob(m.CertificatePrivateKeyPkcs8) {
						bad = "certificate_private_key_pkcs8"
					} else if !isBlob(m.EncryptionPrivateKeyBytes) {
						bad = "encryption_private_key_bytes"
					} else if len(m.RegistrationNonce) > 0 && !isBlob(m.RegistrationNonce) {
						bad = "registration_nonce"
					}
				}
			case "RootCertificates":
				m := new(types.RootCertificates)
				if proto.Unmarshal(c.Bytes, m) == nil && m.WrappingKeyId != "" {
					for _, rc := range []*types.RootCertificate{m.Current, m.Next} {
						if rc != nil && !isBlob(rc.PrivateKeyPkcs8) {
							bad = "private_key_pkcs8"
						}
					}
				}
			case "ServerLedActivationToken":
				m := new(types.ServerLedActivationToken)
				if proto.Unmarshal(c.Bytes, m) == nil && m.WrappingKeyId != "" && !isBlob(m.CreationTimeMarshaled) {
					bad = "creation_time_marshaled"
				}
			}
			if bad != "" {
				r.Violate("no-clear-secrets", "marked-wrapped-but-not-sealed/"+c.Type+"."+bad, "%s storage was handed a %s marked as wrapped (wrapping_key_id set) whose field %s is not a sealed blob", st.Name, c.Type, bad)
			}
		}
	}
}

type secretReg struct {
	names []string
	vals  [][]byte
	only  []string // if non-empty, the record type this secret is looked for in
}

func (s *secretReg) add(name string, b []byte) {
	if len(b) < 5 {
		return
	}
	for _, v := range s.vals {
		if bytes.Equal(v, b) {
			return
		}
	}
	s.names = append(s.names, name)
	s.vals = append(s.vals, append([]byte(nil), b...))
	only := ""
	if strings.Contains(name, "node-side registration nonce") {
		// the statement speaks of the nonce as held by the node (NodeCredentials); the server's copy in NodeInformation is not covered
		only = "NodeCredentials"
	}
	s.only = append(s.only, only)
}

func newMsgOfType(t string) proto.Message {
	switch t {
	case "NodeCredentials":
		return new(types.NodeCredentials)
	case "NodeInformation":
		return new(types.NodeInformation)
	case "RootCertificates":
		return new(types.RootCertificates)
	case "ServerLedActivationToken":
		return new(types.ServerLedActivationToken)
	}
	return nil
}

// scanStores checks every message that was handed to Store (on the given decorated storages) for registered secrets.
func scanStores(r *kernel.Run, reg *secretReg, stores ...*simstore.Store) {
	for _, st := range stores {
		for _, c := range st.Calls {
			if c.Kind != "store" || len(c.Bytes) == 0 {
				continue
			}
			for i, sec := range reg.vals {
				if reg.only[i] != "" && reg.only[i] != c.Type {
					continue
				}
				if !bytes.Contains(c.Bytes, sec) && !bytes.Contains(c.Bytes, []byte(base58.Encode(sec))) {
					continue
				}
				field := "?"
				if m := newMsgOfType(c.Type); m != nil && proto.Unmarshal(c.Bytes, m) == nil {
					if f := simstore.FindField(m, sec); f != "" {
						field = f
					}
				}
				r.Count("oracle.secret_hits", 1)
				r.Violate("no-clear-secrets", "clear-secret/"+c.Type+"."+field, "%s storage was handed a %s whose field %s contains %s in clear although a storage wrapper is configured", st.Name, c.Type, field, reg.names[i])
			}
			r.Count("oracle.store_calls_scanned", 1)
		}
	}
}

// C12: a storage wrapper keeps key material out of storage and binds it to its record.
func propC12(r *kernel.Run) {
	switch r.Tape.Draw(5) {
	case 0, 1:
		c12Flows(r)
	case 2, 3:
		c12Records(r)
	default:
		c12Dial(r)
	}
}

// c12Dial: the records a node writes when it enrolls and connects through protocol.Dial (credential fetch on first
// contact, then the authenticated handshake) with storage wrappers on both sides, against the real listener.
func c12Dial(r *kernel.Run) {
	tp := r.Tape
	srv := NewWorld(r, "server", backends[tp.Draw(3)], true, false)
	nodeW := NewWorld(r, "node", Pick2(tp, "inmem", "file"), true, false)
	reg := &secretReg{}
	r.Count("cfg.mode.dial", 1)
	if _, err := rotation.RotateRootCertificates(srv.Ctx, srv.Storage, srv.Opts()...); err != nil {
		r.HarnessErr("roots: %v", err)
	}
	var dopts []nodeenrollment.Option
	useToken := tp.Draw(2) == 0
	if useToken {
		_, tok, err := registration.CreateServerLedActivationToken(srv.Ctx, srv.Storage, &types.ServerLedRegistrationRequest{}, srv.Opts()...)
		if err != nil {
			r.HarnessErr("token: %v", err)
		}
		dopts = append(dopts, nodeenrollment.WithActivationToken(tok))
	}
	c0, err := types.NewNodeCredentials(nodeW.Ctx, nodeW.Storage, nodeW.Opts(dopts...)...)
	if err != nil {
		r.HarnessErr("new creds: %v", err)
	}
	reg.add("the node certificate private key", c0.CertificatePrivateKeyPkcs8)
	reg.add("the node encryption private key", c0.EncryptionPrivateKeyBytes)
	if !useToken {
		req, _ := c0.CreateFetchNodeCredentialsRequest(contextBG)
		if _, err := registration.AuthorizeNode(srv.Ctx, srv.Storage, req, srv.Opts()...); err != nil {
			r.HarnessErr("authorize: %v", err)
		}
	}
	w := NewWire(r, srv, nil, srv.Opts())
	w.StartAcceptor("acceptor")
	w.Quiesce()
	ndials := tp.Range(1, 3)
	for i := 0; i < ndials; i++ {
		res := w.DialHonest(fmt.Sprintf("dial%d", i), nodeW, w.Addr, dopts...)
		w.Quiesce()
		for _, a := range w.Take() {
			if a.raw != nil {
				a.raw.Close()
			}
		}
		if !res.done || res.err != nil {
			// liveness of honest enrollment is C04's and C07's business; here only what reached storage is judged
			r.Count("probe.dial_failed", 1)
		}
		if res.conn != nil {
			res.conn.Close()
		}
		w.Quiesce()
		w.Take()
		r.Count("ops.dial", 1)
	}
	w.Ln.Close()
	w.Quiesce()
	w.Take()
	if ni, err := types.LoadNodeInformation(srv.Ctx, srv.Inner, keyID(c0.CertificatePublicKeyPkix), srv.Opts()...); err == nil {
		reg.add("the server encryption private key", ni.ServerEncryptionPrivateKeyBytes)
	}
	scanStores(r, reg, srv.St, nodeW.St)
	checkSealedFieldsAreSealed(r, srv.St, nodeW.St)
	// what the node ends up with loads with its wrapper and not without it
	if _, err := types.LoadNodeCredentials(nodeW.Ctx, nodeW.Inner, nodeenrollment.CurrentId, nodeW.Opts()...); err != nil {
		r.Violate("roundtrip", "stored-record-unloadable-with-same-wrapper/NodeCredentials", "the credentials the node stored while dialing cannot be loaded with its own wrapper: %v", err)
	}
	if _, err := types.LoadNodeCredentials(nodeW.Ctx, nodeW.Inner, nodeenrollment.CurrentId); err == nil {
		r.Violate("wrapper-binding", "load-succeeded/NodeCredentials/without a wrapper (after protocol.Dial)", "the credentials a node stored while dialing with a storage wrapper load without any wrapper")
	}
	r.FP("dial", srv.Backend, nodeW.Backend, useToken, ndials)
	r.Count("cases", 1)
}

// c12Flows runs every flow that writes records with storage wrappers on both sides and scans what reached storage.
func c12Flows(r *kernel.Run) {
	tp := r.Tape
	backend := backends[tp.Draw(3)]
	srv := NewWorld(r, "server", backend, true, false)
	nodeW := NewWorld(r, "node", Pick2(tp, "inmem", "file"), true, false)
	srv.NilOpt, nodeW.NilOpt = tp.Draw(4) == 0, tp.Draw(4) == 0
	reg := &secretReg{}
	r.Count("cfg.mode.flows", 1)
	var flaky *flakyWrapper
	if tp.Draw(3) == 0 {
		flaky = &flakyWrapper{Wrapper: srv.SW, failAt: tp.Range(1, 12)}
		srv.SW = flaky
	}
	// an operation that fails because of the injected wrapper outage ends the flow; what reached storage is still judged
	outage := func(err error) bool {
		if err != nil && flaky != nil && flaky.fired {
			r.Count("fault.wrapper_encrypt_outage", 1)
			scanStores(r, reg, srv.St, nodeW.St)
			checkSealedFieldsAreSealed(r, srv.St, nodeW.St)
			return true
		}
		return false
	}
	regRoots := func() {
		roots, err := types.LoadRootCertificates(srv.Ctx, srv.Inner, srv.Opts()...)
		if err != nil {
			r.HarnessErr("load roots: %v", err)
		}
		reg.add("a root private key", roots.Current.PrivateKeyPkcs8)
		reg.add("a root private key", roots.Next.PrivateKeyPkcs8)
	}
	regCreds := func(c *types.NodeCredentials, what string) {
		reg.add("the node certificate private key ("+what+")", c.CertificatePrivateKeyPkcs8)
		reg.add("the node encryption private key ("+what+")", c.EncryptionPrivateKeyBytes)
		reg.add("the node-side registration nonce ("+what+")", c.RegistrationNonce)
	}
	regInfo := func(id string, what string) *types.NodeInformation {
		ni, err := types.LoadNodeInformation(srv.Ctx, srv.Inner, id, srv.Opts()...)
		if err != nil {
			// a record the library stored itself must load with the same wrapper
			checkSealedFieldsAreSealed(r, srv.St, nodeW.St)
			r.Violate("roundtrip", "stored-record-unloadable-with-same-wrapper/NodeInformation", "a node record written by the library cannot be loaded with the same storage wrapper: %v", err)
		}
		reg.add("the server encryption private key ("+what+")", ni.ServerEncryptionPrivateKeyBytes)
		return ni
	}
	var flows []string
	step := func(name string) { flows = append(flows, name); r.Count("ops."+name, 1) }

	var rootOpts []nodeenrollment.Option
	if tp.Draw(3) == 0 {
		// the application keeps state on the roots record
		rootOpts = append(rootOpts, nodeenrollment.WithState(mkStruct(r, 2)))
		r.Count("cfg.roots_stored_with_state", 1)
	}
	if _, err := rotation.RotateRootCertificates(srv.Ctx, srv.Storage, srv.Opts(rootOpts...)...); err != nil {
		if outage(err) {
			return
		}
		r.HarnessErr("roots: %v", err)
	}
	step("rotate_roots")
	regRoots()
	if tp.Draw(2) == 0 {
		r.Sleep(8 * 24 * time.Hour)
		if _, err := rotation.RotateRootCertificates(srv.Ctx, srv.Storage, srv.Opts(rootOpts...)...); err != nil {
			if outage(err) {
				return
			}
			r.HarnessErr("roots 2: %v", err)
		}
		step("rotate_roots_promote")
		regRoots()
	}
	// node side creates credentials in its own wrapped storage
	useToken := tp.Draw(2) == 0
	var nopts []nodeenrollment.Option
	token := ""
	if useToken {
		at := time.Now()
		var err error
		_, token, err = registration.CreateServerLedActivationToken(srv.Ctx, srv.Storage, &types.ServerLedRegistrationRequest{}, srv.Opts(nodeenrollment.WithState(mkStruct(r, tp.Draw(4))))...)
		if err != nil {
			if outage(err) {
				return
			}
			r.HarnessErr("token: %v", err)
		}
		step("create_token")
		tb, _ := proto.Marshal(timestamppb.New(at))
		reg.add("the token creation time", tb)
		nopts = append(nopts, nodeenrollment.WithActivationToken(token))
	}
	creds, err := types.NewNodeCredentials(nodeW.Ctx, nodeW.Storage, nodeW.Opts(nopts...)...)
	if err != nil {
		r.HarnessErr("new creds: %v", err)
	}
	step("new_node_credentials")
	regCreds(creds, "first generation")
	req, err := creds.CreateFetchNodeCredentialsRequest(nodeW.Ctx, nodeW.Opts(nopts...)...)
	if err != nil {
		r.HarnessErr("create request: %v", err)
	}
	if !useToken {
		if _, err := registration.AuthorizeNode(srv.Ctx, srv.Storage, req, srv.Opts(nodeenrollment.WithState(mkStruct(r, tp.Draw(4))))...); err != nil {
			if outage(err) {
				return
			}
			r.Violate("flows-work-with-wrapper", "honest-step-failed/authorize", "authorizing an honest node failed with this option list (nil entry first: %v): %v", srv.NilOpt, err)
		}
		step("authorize")
	}
	resp, err := registration.FetchNodeCredentials(srv.Ctx, srv.Storage, req, srv.Opts()...)
	if err != nil || len(resp.EncryptedNodeCredentials) == 0 {
		if outage(err) {
			return
		}
		r.Violate("flows-work-with-wrapper", "honest-step-failed/fetch", "an honest node's fetch after authorization produced no credentials with this option list (nil entry first: %v): %v", srv.NilOpt, err)
	}
	step("fetch")
	kid := keyID(creds.CertificatePublicKeyPkix)
	oldInfo := regInfo(kid, "first generation")
	creds, err = creds.HandleFetchNodeCredentialsResponse(nodeW.Ctx, nodeW.Storage, resp, nodeW.Opts(nopts...)...)
	if err != nil {
		r.HarnessErr("handle: %v", err)
	}
	step("handle_fetch_response")
	// node credential rotation, with the previous keys retained on both sides
	nrot := tp.Draw(3)
	for i := 0; i < nrot; i++ {
		newCreds, err := types.NewNodeCredentials(nodeW.Ctx, nodeW.Storage, nodeW.Opts(nodeenrollment.WithSkipStorage(true))...)
		if err != nil {
			r.HarnessErr("new creds 2: %v", err)
		}
		regCreds(newCreds, "rotated")
		freq, _ := newCreds.CreateFetchNodeCredentialsRequest(nodeW.Ctx)
		enc, err := nodeenrollment.EncryptMessage(nodeW.Ctx, freq, creds)
		if err != nil {
			r.HarnessErr("encrypt: %v", err)
		}
		rresp, err := rotation.RotateNodeCredentials(srv.Ctx, srv.Storage, &types.RotateNodeCredentialsRequest{CertificatePublicKeyPkix: creds.CertificatePublicKeyPkix, EncryptedFetchNodeCredentialsRequest: enc}, srv.Opts()...)
		if err != nil {
			if outage(err) {
				return
			}
			r.HarnessErr("rotate node: %v", err)
		}
		step("rotate_node_credentials")
		fr := new(types.FetchNodeCredentialsResponse)
		if err := nodeenrollment.DecryptMessage(nodeW.Ctx, rresp.EncryptedFetchNodeCredentialsResponse, creds, fr); err != nil {
			r.HarnessErr("decrypt rotate resp: %v", err)
		}
		// node retains its previous encryption key, then stores the new credentials
		if err := newCreds.SetPreviousEncryptionKey(creds); err != nil {
			r.HarnessErr("set prev: %v", err)
		}
		reg.add("the node's retained previous encryption private key", creds.EncryptionPrivateKeyBytes)
		if newCreds, err = newCreds.HandleFetchNodeCredentialsResponse(nodeW.Ctx, nodeW.Storage, fr, nodeW.Opts()...); err != nil {
			r.HarnessErr("handle 2: %v", err)
		}
		step("store_node_credentials_with_previous_key")
		// server application retains the previous key on the new record
		nkid := keyID(newCreds.CertificatePublicKeyPkix)
		newInfo := regInfo(nkid, "rotated")
		if err := newInfo.SetPreviousEncryptionKey(oldInfo); err != nil {
			r.HarnessErr("set prev info: %v", err)
		}
		reg.add("the server's retained previous encryption private key", oldInfo.ServerEncryptionPrivateKeyBytes)
		if srv.Backend == "storeonce" {
			srv.Inner.Remove(srv.Ctx, &types.NodeInformation{Id: newInfo.Id})
		}
		if err := newInfo.Store(srv.Ctx, srv.Storage, srv.Opts()...); err != nil {
			if outage(err) {
				return
			}
			r.HarnessErr("store info: %v", err)
		}
		step("store_node_information_with_previous_key")
		creds, oldInfo = newCreds, newInfo
	}
	scanStores(r, reg, srv.St, nodeW.St)
	checkSealedFieldsAreSealed(r, srv.St, nodeW.St)
	r.FP("flows", strings.Join(flows, ","), backend, nodeW.Backend)
	r.Count("cases", int64(len(flows)))
	if r.Index%200 == 0 {
		r.SetSample(map[string]any{"mode": "flows", "flows": flows, "secrets_registered": len(reg.vals), "server_backend": backend})
	}
}

// c12Records stores each record type with every combination of optional fields and checks round trip,
// wrong/no wrapper and transplanted sealed fields.
func c12Records(r *kernel.Run) {
	tp := r.Tape
	backend := backends[tp.Draw(3)]
	w := NewWorld(r, "store", backend, true, false)
	// rekey: the KMS key underneath the application's wrapper is rotated between store and load. The wrapper is the same
	// object (a go-kms-wrapping pooled wrapper: decrypts with whichever member sealed a blob, encrypts with the newest,
	// reports the newest key ID), so "loading with the same wrapper returns exactly what was stored" still applies.
	rekey := func() {}
	if tp.Draw(3) == 0 {
		pool, err := multi.NewPooledWrapper(context.Background(), w.SW)
		if err != nil {
			r.HarnessErr("pooled wrapper: %v", err)
		}
		w.SW = pool
		gen := 1
		rekey = func() {
			gen++
			if ok, err := pool.SetEncryptingWrapper(context.Background(), newAead(r, fmt.Sprintf("kms-key-v%d", gen))); err != nil || !ok {
				r.HarnessErr("set encrypting wrapper: %v %v", ok, err)
			}
			r.Count("fault.kms_key_rotated_between_store_and_load", 1)
		}
	}
	w1 := w.SW
	w2 := newAead(r, "other-wrapper")
	o1 := []nodeenrollment.Option{nodeenrollment.WithStorageWrapper(w1)}
	if tp.Draw(4) == 0 {
		o1 = []nodeenrollment.Option{nil, nodeenrollment.WithStorageWrapper(w1)} // a conditionally built list with a nil entry first
	}
	o2 := []nodeenrollment.Option{nodeenrollment.WithStorageWrapper(w2)}
	r.Count("cfg.mode.records", 1)
	rb := func(n int) []byte { b := make([]byte, n); rand.Read(b); return b }
	// key bytes are arbitrary: one time in six they happen to be well-formed protobuf (here: something that parses as the
	// envelope a wrapper produces, with a non-empty ciphertext field) - about one random 32-byte key in 28000 is
	keyBytes := func() []byte {
		b := rb(32)
		if tp.Draw(6) == 0 {
			n := tp.Range(1, 30)
			b[0], b[1] = 0x0a, byte(n) // field 1 (ciphertext), length n
			if 2+n < 32 {
				rest := 32 - 2 - n // pad with another length-delimited field so that all 32 bytes parse
				if rest >= 2 {
					b[2+n], b[3+n] = 0x12, byte(rest-2)
				} else {
					b[1] = 30
				}
			}
			r.Count("cfg.key_bytes_that_parse_as_an_envelope", 1)
		}
		return b
	}
	opt := tp.Draw(16) // bit mask of optional fields: 1 nonce, 2 previous key, 4 state, 8 bundles
	prevKey := func() *types.EncryptionKey {
		if opt&2 == 0 {
			return nil
		}
		return &types.EncryptionKey{KeyId: "old-key-id", PrivateKeyPkcs8: rb(32), PrivateKeyType: types.KEYTYPE_X25519, PublicKeyPkix: rb(32), PublicKeyType: types.KEYTYPE_X25519}
	}
	bundles := func() []*types.CertificateBundle {
		if opt&8 == 0 {
			return nil
		}
		return []*types.CertificateBundle{{CertificateDer: rb(100), CaCertificateDer: rb(100)}, {CertificateDer: rb(100), CaCertificateDer: rb(100)}}
	}
	reg := &secretReg{}
	kind := tp.Draw(4)
	kname := [...]string{"NodeCredentials", "NodeInformation", "RootCertificates", "ServerLedActivationToken"}[kind]
	fail := func(what string, err error) {
		if err == nil {
			r.Violate("wrapper-binding", "load-succeeded/"+kname+"/"+what, "%s: loading a %s record %s succeeded (optional-field mask %d, backend %s)", kname, kname, what, opt, backend)
		}
	}
	switch kind {
	case 0:
		mk := func(id string) *types.NodeCredentials {
			a := NewIdent(id).Creds()
			a.Id = id
			if opt&1 == 0 {
				a.RegistrationNonce = nil
			}
			a.PreviousEncryptionKey = prevKey()
			if opt&4 != 0 {
				a.State = mkStruct(r, 3)
			}
			a.CertificateBundles = bundles()
			return a
		}
		a, b := mk("current"), mk("next")
		orig := proto.Clone(a).(*types.NodeCredentials)
		reg.add("the node certificate private key", a.CertificatePrivateKeyPkcs8)
		reg.add("the node encryption private key", a.EncryptionPrivateKeyBytes)
		reg.add("the node-side registration nonce", a.RegistrationNonce)
		if a.PreviousEncryptionKey != nil {
			reg.add("the retained previous encryption private key", a.PreviousEncryptionKey.PrivateKeyPkcs8)
		}
		if err := a.Store(w.Ctx, w.Storage, o1...); err != nil {
			r.Violate("roundtrip", "store-failed/"+kname, "%v", err)
		}
		if err := b.Store(w.Ctx, w.Storage, o1...); err != nil {
			r.Violate("roundtrip", "store-failed/"+kname, "%v", err)
		}
		rekey()
		got, err := types.LoadNodeCredentials(w.Ctx, w.Storage, nodeenrollment.CurrentId, o1...)
		if err != nil || !proto.Equal(got, orig) {
			r.Violate("roundtrip", "roundtrip-differs/"+kname, "load with the same wrapper: err=%v equal=%v (mask %d)", err, err == nil && proto.Equal(got, orig), opt)
		}
		_, err = types.LoadNodeCredentials(w.Ctx, w.Storage, nodeenrollment.CurrentId)
		fail("without a wrapper", err)
		_, err = types.LoadNodeCredentials(w.Ctx, w.Storage, nodeenrollment.CurrentId, o2...)
		fail("with a different wrapper", err)
		// transplant each sealed field of "next" into "current"
		fields := []string{"certificate_private_key_pkcs8", "encryption_private_key_bytes"}
		if opt&1 != 0 {
			fields = append(fields, "registration_nonce")
		}
		f := fields[tp.Draw(len(fields))]
		ra, rbb := &types.NodeCredentials{Id: "current"}, &types.NodeCredentials{Id: "next"}
		w.Inner.Load(w.Ctx, ra)
		w.Inner.Load(w.Ctx, rbb)
		switch f {
		case "certificate_private_key_pkcs8":
			ra.CertificatePrivateKeyPkcs8 = rbb.CertificatePrivateKeyPkcs8
		case "encryption_private_key_bytes":
			ra.EncryptionPrivateKeyBytes = rbb.EncryptionPrivateKeyBytes
		case "registration_nonce":
			ra.RegistrationNonce = rbb.RegistrationNonce
		}
		w.Inner.Store(w.Ctx, ra)
		r.Count("fault.misdirected_sealed_field", 1)
		_, err = types.LoadNodeCredentials(w.Ctx, w.Storage, nodeenrollment.CurrentId, o1...)
		fail("after transplanting sealed "+f+" from another record", err)
		// the same between two nodes: another node's "current" record (same ID, same wrapper) in its own storage
		w2 := NewWorld(r, "other-node", Pick2(tp, "inmem", "file"), false, false)
		c2 := mk("current")
		if err := c2.Store(w2.Ctx, w2.Storage, o1...); err != nil {
			r.Violate("roundtrip", "store-failed/"+kname, "%v", err)
		}
		if err := proto.Clone(orig).(*types.NodeCredentials).Store(w.Ctx, w.Storage, o1...); err != nil {
			r.Violate("roundtrip", "store-failed/"+kname, "%v", err)
		}
		ra2, rb2 := &types.NodeCredentials{Id: "current"}, &types.NodeCredentials{Id: "current"}
		w.Inner.Load(w.Ctx, ra2)
		w2.Inner.Load(w2.Ctx, rb2)
		f2 := fields[tp.Draw(len(fields))]
		switch f2 {
		case "certificate_private_key_pkcs8":
			ra2.CertificatePrivateKeyPkcs8 = rb2.CertificatePrivateKeyPkcs8
		case "encryption_private_key_bytes":
			ra2.EncryptionPrivateKeyBytes = rb2.EncryptionPrivateKeyBytes
		case "registration_nonce":
			ra2.RegistrationNonce = rb2.RegistrationNonce
		}
		w.Inner.Store(w.Ctx, ra2)
		r.Count("fault.misdirected_sealed_field", 1)
		_, err = types.LoadNodeCredentials(w.Ctx, w.Storage, nodeenrollment.CurrentId, o1...)
		fail("after transplanting sealed "+f2+" from another node's record with the same ID", err)
		r.FP(kname, opt, f, f2, backend)
	case 1:
		mk := func(name string) *types.NodeInformation {
			id := NewIdent(name)
			ni := &types.NodeInformation{Id: id.KeyId, CertificatePublicKeyPkix: id.Pkix, CertificatePublicKeyType: types.KEYTYPE_ED25519,
				EncryptionPublicKeyBytes: id.EncPub, EncryptionPublicKeyType: types.KEYTYPE_X25519, ServerEncryptionPrivateKeyBytes: keyBytes(), ServerEncryptionPrivateKeyType: types.KEYTYPE_X25519}
			if opt&1 != 0 {
				ni.RegistrationNonce = rb(32)
			}
			ni.PreviousEncryptionKey = prevKey()
			if opt&4 != 0 {
				ni.State = mkStruct(r, 3)
			}
			ni.CertificateBundles = bundles()
			return ni
		}
		a, b := mk("a"), mk("b")
		orig := proto.Clone(a).(*types.NodeInformation)
		reg.add("the server encryption private key", a.ServerEncryptionPrivateKeyBytes)
		if a.PreviousEncryptionKey != nil {
			reg.add("the retained previous encryption private key", a.PreviousEncryptionKey.PrivateKeyPkcs8)
		}
		if err := a.Store(w.Ctx, w.Storage, o1...); err != nil {
			r.Violate("roundtrip", "store-failed/"+kname, "%v", err)
		}
		if err := b.Store(w.Ctx, w.Storage, o1...); err != nil {
			r.Violate("roundtrip", "store-failed/"+kname, "%v", err)
		}
		rekey()
		got, err := types.LoadNodeInformation(w.Ctx, w.Storage, a.Id, o1...)
		if err != nil || !proto.Equal(got, orig) {
			r.Violate("roundtrip", "roundtrip-differs/"+kname, "load with the same wrapper: err=%v (mask %d)", err, opt)
		}
		_, err = types.LoadNodeInformation(w.Ctx, w.Storage, a.Id)
		fail("without a wrapper", err)
		_, err = types.LoadNodeInformation(w.Ctx, w.Storage, a.Id, o2...)
		fail("with a different wrapper", err)
		ra, rbb := &types.NodeInformation{Id: a.Id}, &types.NodeInformation{Id: b.Id}
		w.Inner.Load(w.Ctx, ra)
		w.Inner.Load(w.Ctx, rbb)
		ra.ServerEncryptionPrivateKeyBytes = rbb.ServerEncryptionPrivateKeyBytes
		if w.Backend == "storeonce" {
			w.Inner.Remove(w.Ctx, &types.NodeInformation{Id: a.Id})
		}
		w.Inner.Store(w.Ctx, ra)
		r.Count("fault.misdirected_sealed_field", 1)
		_, err = types.LoadNodeInformation(w.Ctx, w.Storage, a.Id, o1...)
		fail("after transplanting the sealed server encryption key of another record", err)
		// the same through the lookup by node ID: a set in which one record cannot be opened is not a loaded set
		nl := w.St.WithNodeIdLoader()
		nid := "node-with-several-records"
		var set []*types.NodeInformation
		for i := 0; i < tp.Range(2, 4); i++ {
			m := mk(fmt.Sprintf("set%d", i))
			m.NodeId = nid
			set = append(set, m)
		}
		bad := tp.Draw(len(set))
		how := Pick2(tp, "sealed with a different wrapper", "carrying the sealed server encryption key of another record", "stored before the wrapper was introduced")
		for i, m := range set {
			o := o1
			if i == bad && how == "sealed with a different wrapper" {
				o = o2
			}
			if i == bad && how == "stored before the wrapper was introduced" {
				o = nil // an unsealed record (deliberately loadable) next to sealed ones
			}
			if err := proto.Clone(m).(*types.NodeInformation).Store(w.Ctx, w.Storage, o...); err != nil {
				r.Violate("roundtrip", "store-failed/"+kname, "%v", err)
			}
		}
		if how == "stored before the wrapper was introduced" {
			// whichever position the unsealed record has in the lookup result, every record comes back as it was stored
			pos := tp.Draw(3)
			w.St.NodeOrder = func(ids []string) []string {
				var first, rest []string
				for _, id := range ids {
					if id == set[bad].Id {
						first = append(first, id)
					} else {
						rest = append(rest, id)
					}
				}
				switch pos {
				case 0:
					return append(first, rest...)
				case 1:
					return append(rest, first...)
				}
				return ids
			}
			gs, err := types.LoadNodeInformationSetByNodeId(w.Ctx, nl, nid, o1...)
			w.St.NodeOrder = nil
			if err != nil || len(gs.GetNodes()) != len(set) {
				r.Violate("roundtrip", "roundtrip-differs/NodeInformationSet", "a node's records, one of them stored before the wrapper was introduced (position %d): err=%v got %d of %d", pos, err, len(gs.GetNodes()), len(set))
			}
			for _, g := range gs.GetNodes() {
				for _, m := range set {
					if m.Id == g.Id && !bytes.Equal(m.ServerEncryptionPrivateKeyBytes, g.ServerEncryptionPrivateKeyBytes) {
						r.Violate("roundtrip", "roundtrip-differs/NodeInformationSet", "record %s of a mixed sealed/unsealed set came back with a server key that is not the stored one (unsealed record at position %d): still sealed?", g.Id, pos)
					}
				}
			}
			r.Count("ops.load_set_by_node_id", 1)
			r.FP(kname, opt, backend, how, bad, len(set), pos)
			break
		}
		gotSet, err := types.LoadNodeInformationSetByNodeId(w.Ctx, nl, nid, o1...)
		if how == "sealed with a different wrapper" {
			fail("set by node ID with one record "+how, err)
		} else {
			// first a clean set must load completely with the right wrapper
			if err != nil || len(gotSet.GetNodes()) != len(set) {
				r.Violate("roundtrip", "roundtrip-differs/NodeInformationSet", "loading %d records under one node ID with the same wrapper: err=%v got %d", len(set), err, len(gotSet.GetNodes()))
			}
			donor := set[(bad+1)%len(set)]
			rv, rd := &types.NodeInformation{Id: set[bad].Id}, &types.NodeInformation{Id: donor.Id}
			w.Inner.Load(w.Ctx, rv)
			w.Inner.Load(w.Ctx, rd)
			rv.ServerEncryptionPrivateKeyBytes = rd.ServerEncryptionPrivateKeyBytes
			if w.Backend == "storeonce" {
				w.Inner.Remove(w.Ctx, &types.NodeInformation{Id: rv.Id})
			}
			w.Inner.Store(w.Ctx, rv)
			r.Count("fault.misdirected_sealed_field", 1)
			_, err = types.LoadNodeInformationSetByNodeId(w.Ctx, nl, nid, o1...)
			fail("set by node ID with one record "+how, err)
		}
		_, err = types.LoadNodeInformationSetByNodeId(w.Ctx, nl, nid)
		fail("set by node ID without a wrapper", err)
		r.Count("ops.load_set_by_node_id", 1)
		r.FP(kname, opt, backend, how, bad, len(set))
	case 2:
		now := time.Now()
		rc := &types.RootCertificates{Id: nodeenrollment.RootsMessageId, Current: makeRoot(nodeenrollment.CurrentId, now, now.Add(time.Hour)), Next: makeRoot(nodeenrollment.NextId, now.Add(30*time.Minute), now.Add(90*time.Minute))}
		if opt&4 != 0 {
			rc.State = mkStruct(r, 2)
		}
		orig := proto.Clone(rc).(*types.RootCertificates)
		reg.add("a root private key", rc.Current.PrivateKeyPkcs8)
		reg.add("a root private key", rc.Next.PrivateKeyPkcs8)
		so := o1
		if opt&4 != 0 {
			// the application attaches state to the roots record when storing it
			st := mkStruct(r, 2)
			so = append(append([]nodeenrollment.Option{}, o1...), nodeenrollment.WithState(st))
			orig.State = st
			r.Count("cfg.roots_stored_with_state", 1)
		}
		if err := rc.Store(w.Ctx, w.Storage, so...); err != nil {
			r.Violate("roundtrip", "store-failed/"+kname, "%v", err)
		}
		rekey()
		got, err := types.LoadRootCertificates(w.Ctx, w.Storage, o1...)
		if err != nil || !proto.Equal(got, orig) {
			r.Violate("roundtrip", "roundtrip-differs/"+kname, "load with the same wrapper: err=%v (mask %d)", err, opt)
		}
		_, err = types.LoadRootCertificates(w.Ctx, w.Storage)
		fail("without a wrapper", err)
		_, err = types.LoadRootCertificates(w.Ctx, w.Storage, o2...)
		fail("with a different wrapper", err)
		raw := &types.RootCertificates{Id: nodeenrollment.RootsMessageId}
		w.Inner.Load(w.Ctx, raw)
		if tp.Draw(2) == 0 {
			raw.Current.PrivateKeyPkcs8 = raw.Next.PrivateKeyPkcs8
		} else {
			raw.Next.PrivateKeyPkcs8 = raw.Current.PrivateKeyPkcs8
		}
		w.Inner.Store(w.Ctx, raw)
		r.Count("fault.misdirected_sealed_field", 1)
		_, err = types.LoadRootCertificates(w.Ctx, w.Storage, o1...)
		fail("after moving one root's sealed private key to the other root", err)
		r.FP(kname, opt, backend)
	case 3:
		mk := func(id string, at time.Time) *types.ServerLedActivationToken {
			t := &types.ServerLedActivationToken{Id: id, CreationTime: timestamppb.New(at)}
			if opt&4 != 0 {
				t.State = mkStruct(r, 2)
			}
			return t
		}
		a, b := mk("tokA"+fmt.Sprint(tp.Draw(1000)), time.Now()), mk("tokB", time.Now().Add(time.Hour))
		tb, _ := proto.Marshal(a.CreationTime)
		reg.add("the token creation time", tb)
		if err := a.Store(w.Ctx, w.Storage, o1...); err != nil {
			r.Violate("roundtrip", "store-failed/"+kname, "%v", err)
		}
		if err := b.Store(w.Ctx, w.Storage, o1...); err != nil {
			r.Violate("roundtrip", "store-failed/"+kname, "%v", err)
		}
		rekey()
		got, err := types.LoadServerLedActivationToken(w.Ctx, w.Storage, a.Id, o1...)
		if err != nil || !got.CreationTime.AsTime().Equal(a.CreationTime.AsTime()) || !proto.Equal(got.State, a.State) || got.Id != a.Id {
			r.Violate("roundtrip", "roundtrip-differs/"+kname, "load with the same wrapper: err=%v (mask %d)", err, opt)
		}
		// the application loads the token, changes it and stores it again: what is loaded afterwards is what was stored last
		if got != nil && err == nil {
			moved := a.CreationTime.AsTime().Add(-time.Duration(tp.Range(1, 1000)) * time.Hour)
			got.CreationTime = timestamppb.New(moved)
			mb, _ := proto.Marshal(got.CreationTime)
			reg.add("the token creation time", mb)
			if serr := got.Store(w.Ctx, w.Storage, o1...); serr != nil {
				r.Violate("roundtrip", "store-failed/"+kname, "re-storing a loaded token: %v", serr)
			}
			again, lerr := types.LoadServerLedActivationToken(w.Ctx, w.Storage, a.Id, o1...)
			if lerr != nil || !again.CreationTime.AsTime().Equal(moved) {
				r.Violate("roundtrip", "roundtrip-differs/"+kname, "a token loaded, given another creation time and stored again loads with err=%v and the %s creation time", lerr, map[bool]string{true: "old", false: "a wrong"}[lerr == nil && again.CreationTime.AsTime().Equal(a.CreationTime.AsTime())])
			}
			r.Count("ops.token_restored_after_modification", 1)
		}
		_, err = types.LoadServerLedActivationToken(w.Ctx, w.Storage, a.Id)
		fail("without a wrapper", err)
		_, err = types.LoadServerLedActivationToken(w.Ctx, w.Storage, a.Id, o2...)
		fail("with a different wrapper", err)
		ra, rbb := &types.ServerLedActivationToken{Id: a.Id}, &types.ServerLedActivationToken{Id: b.Id}
		w.Inner.Load(w.Ctx, ra)
		w.Inner.Load(w.Ctx, rbb)
		ra.CreationTimeMarshaled = rbb.CreationTimeMarshaled
		w.Inner.Store(w.Ctx, ra)
		r.Count("fault.misdirected_sealed_field", 1)
		_, err = types.LoadServerLedActivationToken(w.Ctx, w.Storage, a.Id, o1...)
		fail("after transplanting the sealed creation time of another token", err)
		r.FP(kname, opt, backend)
	}
	scanStores(r, reg, w.St)
	r.Count("cases", 1)
	r.Count("ops.record_"+kname, 1)
	if r.Index%200 == 1 {
		r.SetSample(map[string]any{"mode": "records", "type": kname, "optional_field_mask(1 nonce,2 previous key,4 state,8 bundles)": opt, "backend": backend})
	}
}

func init() {
	register(&Prop{ID: "C12", Engine: propC12})
}
