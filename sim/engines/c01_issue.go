//go:build verif

package engines

import (
	"bytes"
	"crypto/ecdh"
	"crypto/rand"
	"fmt"
	"strings"
	"time"

	wrapping "github.com/hashicorp/go-kms-wrapping/v2"
	"github.com/hashicorp/nodeenrollment"
	"github.com/hashicorp/nodeenrollment/registration"
	"github.com/hashicorp/nodeenrollment/rotation"
	"github.com/hashicorp/nodeenrollment/types"
	"github.com/mr-tron/base58"
	"google.golang.org/protobuf/proto"

	"verifsim/kernel"
)

type recModel struct {
	nonce  []byte
	encPub []byte
}

type tokModel struct {
	payload  []byte
	created  time.Time
	consumed bool
}

// enrollIdent performs an honest operator-authorized enrollment and returns the node-side credentials
// (used to give the "intermediate" real credentials it can re-wrap with).
func enrollIdent(r *kernel.Run, w *World, id *Ident) *types.NodeCredentials {
	req, _ := BuildFetch(HonestSpec(id))
	if _, err := registration.AuthorizeNode(w.Ctx, w.Storage, req, w.Opts()...); err != nil {
		r.HarnessErr("authorize intermediate: %v", err)
	}
	resp, err := registration.FetchNodeCredentials(w.Ctx, w.Storage, req, w.Opts()...)
	if err != nil || len(resp.EncryptedNodeCredentials) == 0 {
		r.HarnessErr("fetch intermediate: %v", err)
	}
	creds := id.Creds()
	out, err := creds.HandleFetchNodeCredentialsResponse(w.Ctx, w.Storage, resp, nodeenrollment.WithSkipStorage(true))
	if err != nil {
		r.HarnessErr("handle intermediate: %v", err)
	}
	return out
}

// C01: credentials are issued only for authorized enrollment requests.
func propC01(r *kernel.Run) {
	tp := r.Tape
	r.OnEnd(func() { delete(c01Saved, r) })
	backend := backends[tp.Draw(3)]
	sw := tp.Draw(2) == 1
	w := NewWorld(r, "server", backend, sw, false)
	if _, err := rotation.RotateRootCertificates(w.Ctx, w.Storage, w.Opts()...); err != nil {
		r.HarnessErr("bootstrap roots: %v", err)
	}
	serverRW := newAead(r, "registration")
	foreignRW := newAead(r, "foreign")
	if tp.Draw(3) != 0 {
		w.RW = serverRW
	}
	nIds := tp.Range(2, 5)
	var ids []*Ident
	for i := 0; i < nIds; i++ {
		ids = append(ids, NewIdent(fmt.Sprintf("n%d", i)))
	}
	inter := NewIdent("intermediate")
	interCreds := enrollIdent(r, w, inter)
	other := NewIdent("other-intermediate") // registered, but not the one that re-wrapped
	enrollIdent(r, w, other)

	recs := map[string]*recModel{ // keyId -> record the model believes is stored
		inter.KeyId: {inter.Nonce, inter.EncPub},
		other.KeyId: {other.Nonce, other.EncPub},
	}
	var toks []*tokModel
	maxLife := nodeenrollment.DefaultMaximumServerLedActivationTokenLifetime
	privOf := map[string]*ecdh.PrivateKey{}
	for _, id := range append(append([]*Ident{}, ids...), inter, other) {
		privOf[string(id.EncPub)] = id.EncPriv
	}

	nops := tp.Range(6, r.Deep(40, 120))
	var hist []string
	for op := 0; op < nops; op++ {
		switch k := tp.Draw(12); {
		case k == 0: // operator authorizes a node-led request
			id := ids[tp.Draw(len(ids))]
			req, _ := BuildFetch(HonestSpec(id))
			_, err := registration.AuthorizeNode(w.Ctx, w.Storage, req, w.Opts()...)
			if err == nil {
				if recs[id.KeyId] != nil {
					r.Violate("authorize", "authorize-overwrote-existing", "AuthorizeNode succeeded for %s which already has a record", id.Name)
				}
				recs[id.KeyId] = &recModel{id.Nonce, id.EncPub}
			} else if recs[id.KeyId] == nil {
				r.Violate("authorize", "authorize-failed", "AuthorizeNode failed for unknown key %s: %v", id.Name, err)
			}
			hist = append(hist, "authorize "+id.Name)
			r.Count("ops.authorize", 1)
		case k == 1: // operator creates a token
			if len(toks) >= 3 {
				continue
			}
			topts := w.Opts()
			if tp.Draw(2) == 0 {
				topts = append(topts, nodeenrollment.WithState(mkStruct(r, 2)))
			}
			_, tok, err := registration.CreateServerLedActivationToken(w.Ctx, w.Storage, &types.ServerLedRegistrationRequest{}, topts...)
			if err != nil {
				r.HarnessErr("create token: %v", err)
			}
			payload, _ := base58.FastBase58Decoding(strings.TrimPrefix(tok, nodeenrollment.ServerLedActivationTokenPrefix))
			toks = append(toks, &tokModel{payload: payload, created: time.Now()})
			hist = append(hist, "create-token")
			r.Count("ops.create_token", 1)
		case k == 2: // operator removes a node
			pool := append(append([]*Ident{}, ids...), inter)
			id := pool[tp.Draw(len(pool))]
			if recs[id.KeyId] == nil {
				continue
			}
			if err := w.Inner.Remove(w.Ctx, &types.NodeInformation{Id: id.KeyId}); err != nil {
				r.HarnessErr("remove: %v", err)
			}
			delete(recs, id.KeyId)
			hist = append(hist, "remove "+id.Name)
			r.Count("ops.remove_node", 1)
		case k == 3: // operator configures or omits the registration wrapper
			if w.RW == nil {
				w.RW = serverRW
			} else {
				w.RW = nil
			}
			hist = append(hist, fmt.Sprintf("registration-wrapper=%v", w.RW != nil))
			r.Count("ops.toggle_registration_wrapper", 1)
		case k == 4: // clock
			var d time.Duration
			if tp.Draw(2) == 0 && len(toks) > 0 {
				t := toks[tp.Draw(len(toks))]
				d = time.Until(t.created.Add(maxLife).Add(time.Duration(tp.Draw(5)-2) * time.Nanosecond))
			} else {
				d = tp.DurLog(time.Second, 20*24*time.Hour)
			}
			if d > 0 {
				r.Sleep(d)
				hist = append(hist, "sleep "+d.String())
				r.Count("ops.clock_jump", 1)
			}
		default: // a well-signed fetch request
			c01Request(r, w, tp, ids, inter, other, interCreds, serverRW, foreignRW, recs, &toks, maxLife, privOf, &hist)
		}
	}
	if r.Index%300 == 0 {
		if len(hist) > 16 {
			hist = hist[:16]
		}
		r.SetSample(map[string]any{"backend": backend, "storage_wrapper": sw, "history": hist})
	}
}

// c01Saved: the evaluation closures of the requests made so far in a run (a request is replayed by calling its closure again)
var c01Saved = map[*kernel.Run][]func(bool){}

func c01Request(r *kernel.Run, w *World, tp *kernel.Tape, ids []*Ident, inter, other *Ident, interCreds *types.NodeCredentials,
	serverRW, foreignRW wrapping.Wrapper, recs map[string]*recModel, toks *[]*tokModel, maxLife time.Duration, privOf map[string]*ecdh.PrivateKey, hist *[]string) {
	if saved := c01Saved[r]; len(saved) > 0 && tp.Draw(8) == 0 {
		// the very same request (same bytes) arrives again, possibly after the operator changed something
		r.Count("ops.replayed_request", 1)
		saved[tp.Draw(len(saved))](true)
		return
	}
	now := time.Now()
	// certificate key: one of the identities (known or not depends on history) or a brand-new key
	var cert *Ident
	if tp.Draw(6) == 0 {
		cert = NewIdent("fresh")
		privOf[string(cert.EncPub)] = cert.EncPriv
	} else {
		cert = ids[tp.Draw(len(ids))]
	}
	// encryption key
	encClass := Pick2(tp, "own", "own", "own", "other", "fresh")
	enc := cert.EncPub
	switch encClass {
	case "other":
		o := ids[tp.Draw(len(ids))]
		if o == cert {
			encClass = "own"
		}
		enc = o.EncPub
	case "fresh":
		k, _ := ecdh.X25519().GenerateKey(rand.Reader)
		enc = k.PublicKey().Bytes()
		privOf[string(enc)] = k
	}
	// nonce
	nonceClass := Pick2(tp, "own", "own", "other", "fresh", "token", "token", "token-fabricated", "garbage")
	nonce := cert.Nonce
	var tok *tokModel
	switch nonceClass {
	case "other":
		o := ids[tp.Draw(len(ids))]
		if o == cert {
			nonceClass = "own"
		}
		nonce = o.Nonce
	case "fresh":
		nonce = make([]byte, 32)
		rand.Read(nonce)
	case "token":
		if len(*toks) == 0 {
			nonceClass = "own"
		} else {
			tok = (*toks)[tp.Draw(len(*toks))]
			nonce = tok.payload
		}
	case "token-fabricated":
		n := make([]byte, 32)
		k := make([]byte, 32)
		rand.Read(n)
		rand.Read(k)
		nonce, _ = proto.Marshal(&types.ServerLedActivationTokenNonce{Nonce: n, HmacKeyBytes: k})
	case "garbage":
		nonce = make([]byte, tp.Range(1, 80))
		rand.Read(nonce)
		if len(nonce) == 32 {
			nonceClass = "fresh"
		}
	}
	// wrapped / re-wrapped registration info
	wrapClass := Pick2(tp, "none", "none", "none", "server", "server", "foreign", "server-other-nonce", "server-other-key", "rewrapped", "rewrapped", "rewrapped-unregistered-id", "rewrapped-wrong-id", "rewrapped-other-nonce", "garbage", "garbage-rewrapped", "rewrapped-info-without-key", "rewrapped-other-message-type", "sealed-with-storage-wrapper")
	sp := ReqSpec{Cert: cert, EncPub: enc, Nonce: nonce, NotBefore: now, NotAfter: now.Add(24 * time.Hour)}
	otherNonce := make([]byte, 32)
	rand.Read(otherNonce)
	regInfoFor := func(n, k []byte) *types.WrappingRegistrationFlowInfo {
		return &types.WrappingRegistrationFlowInfo{Nonce: n, CertificatePublicKeyPkix: k}
	}
	rewrap := func(ri *types.WrappingRegistrationFlowInfo) []byte {
		b, err := nodeenrollment.EncryptMessage(w.Ctx, ri, interCreds)
		if err != nil {
			r.HarnessErr("rewrap: %v", err)
		}
		return b
	}
	switch wrapClass {
	case "server":
		sp.Wrapped = WrapRegInfo(r, serverRW, nonce, cert.Pkix, nil)
	case "foreign":
		sp.Wrapped = WrapRegInfo(r, foreignRW, nonce, cert.Pkix, nil)
	case "server-other-nonce":
		sp.Wrapped = WrapRegInfo(r, serverRW, otherNonce, cert.Pkix, nil)
	case "server-other-key":
		sp.Wrapped = WrapRegInfo(r, serverRW, nonce, ids[(indexOf(ids, cert)+1)%len(ids)].Pkix, nil)
		if len(ids) == 1 || indexOf(ids, cert) < 0 {
			sp.Wrapped = WrapRegInfo(r, serverRW, nonce, inter.Pkix, nil)
		}
	case "rewrapped":
		sp.Rewrapped, sp.RewrapKey = rewrap(regInfoFor(nonce, cert.Pkix)), inter.KeyId
	case "rewrapped-unregistered-id":
		sp.Rewrapped, sp.RewrapKey = rewrap(regInfoFor(nonce, cert.Pkix)), NewIdent("nobody").KeyId
	case "rewrapped-wrong-id":
		sp.Rewrapped, sp.RewrapKey = rewrap(regInfoFor(nonce, cert.Pkix)), other.KeyId
	case "rewrapped-other-nonce":
		sp.Rewrapped, sp.RewrapKey = rewrap(regInfoFor(otherNonce, cert.Pkix)), inter.KeyId
	case "sealed-with-storage-wrapper":
		// the server's STORAGE wrapper is another key with another purpose: registration info sealed with it authorizes nothing
		if w.SW != nil {
			sp.Wrapped = WrapRegInfo(r, w.SW, nonce, cert.Pkix, nil)
		} else {
			sp.Wrapped = WrapRegInfo(r, foreignRW, nonce, cert.Pkix, nil)
		}
	case "rewrapped-info-without-key":
		// sealed by the registered intermediate, right nonce, but no certificate key inside
		sp.Rewrapped, sp.RewrapKey = rewrap(&types.WrappingRegistrationFlowInfo{Nonce: nonce}), inter.KeyId
	case "rewrapped-other-message-type":
		// something else the intermediate's key has sealed (and that travels in clear on the wire): a fetch response's
		// credentials message, whose field numbers overlap with the registration info's (nonce yes, key no)
		b, err := nodeenrollment.EncryptMessage(w.Ctx, &types.NodeCredentials{RegistrationNonce: nonce, ServerEncryptionPublicKeyBytes: tp.Bytes(32)}, interCreds)
		if err != nil {
			r.HarnessErr("rewrap other message: %v", err)
		}
		sp.Rewrapped, sp.RewrapKey = b, inter.KeyId
	case "garbage":
		sp.Wrapped = tp.Bytes(tp.Range(1, 60))
	case "garbage-rewrapped":
		sp.Rewrapped, sp.RewrapKey = tp.Bytes(tp.Range(1, 60)), inter.KeyId
		if tp.Draw(3) == 0 {
			// a syntactically valid blob whose ciphertext is very short
			bi := &wrapping.BlobInfo{Ciphertext: tp.Bytes(tp.Range(0, 40)), KeyInfo: &wrapping.KeyInfo{KeyId: inter.KeyId}}
			if tp.Draw(2) == 0 {
				bi.KeyInfo = nil // the optional part of the envelope left out
			}
			sp.Rewrapped, _ = proto.Marshal(bi)
		}
	}
	// fields of the signed bundle that are meant for the library's own use ("key id derived from the public key", "populated
	// with decrypted values") - the node signs the bundle, so it can fill them with anything
	fillClass := Pick2(tp, "none", "none", "none", "id-of-other-node", "id-garbage", "cached-registration-info", "cached-registration-info+id-of-other-node")
	if strings.Contains(fillClass, "id-of-other-node") {
		o := ids[(indexOf(ids, cert)+1+tp.Draw(len(ids)))%len(ids)]
		if o == cert {
			o = inter
		}
		sp.Id = o.KeyId
	}
	if fillClass == "id-garbage" {
		sp.Id = "not-a-key-id"
	}
	if strings.Contains(fillClass, "cached-registration-info") {
		sp.Cached = regInfoFor(nonce, cert.Pkix)
		if wrapClass == "none" && tp.Draw(2) == 0 {
			wrapClass = "garbage"
			sp.Wrapped = tp.Bytes(tp.Range(1, 60))
		}
	}
	if fillClass != "none" {
		r.Count("fault.library_internal_fields_filled_by_node", 1)
	}
	req, _ := BuildFetch(sp)

	// everything from here on is evaluated again whenever the same request is presented another time (replay): the
	// model is a function of the current state, so an answer that was right before may be wrong now
	eval := func(replayed bool) {
		now := time.Now()
		// ---- reference model: may this request be answered with credentials?
		rec := recs[cert.KeyId]
		condA := len(sp.Wrapped) == 0 && len(sp.Rewrapped) == 0 && len(nonce) == nodeenrollment.NonceSize &&
			rec != nil && bytes.Equal(rec.nonce, nonce) && bytes.Equal(rec.encPub, enc)
		tokLive := tok != nil && !tok.consumed && !now.After(tok.created.Add(maxLife))
		condB := len(sp.Wrapped) == 0 && len(sp.Rewrapped) == 0 && nonceClass == "token" && tokLive && rec == nil
		condC := false
		switch wrapClass {
		case "server":
			condC = w.RW != nil
		case "rewrapped":
			condC = recs[inter.KeyId] != nil
		}
		if condC && w.Backend == "storeonce" && rec != nil {
			// a store-once back end keeps the existing record; the response is built from it, so it must match the request
			condC = bytes.Equal(rec.nonce, nonce) && bytes.Equal(rec.encPub, enc)
		}
		may := condA || condB || condC
		clean := (condA && wrapClass == "none") || (condB && wrapClass == "none" && !now.Equal(tok.created.Add(maxLife))) || condC

		before := countNodeInfos(w)
		var resp *types.FetchNodeCredentialsResponse
		var err error
		if p, msg, site := kernel.Guard(func() { resp, err = registration.FetchNodeCredentials(w.Ctx, w.Storage, req, w.Opts()...) }); p {
			r.Violate("no-panic", "fetch-panic/"+site, "FetchNodeCredentials panicked (%s/%s/%s): %s", nonceClass, encClass, wrapClass, msg)
		}
		after := countNodeInfos(w)
		issued := err == nil && resp != nil && len(resp.EncryptedNodeCredentials) > 0
		if issued {
			r.Count("probe.issued", 1)
		}
		known := "unknown-key"
		if rec != nil {
			known = "known-key"
		}
		class := fmt.Sprintf("%s/nonce-%s/enc-%s/wrap-%s", known, nonceClass, encClass, wrapClass)
		if fillClass != "none" {
			class += "/filled-" + fillClass
		}
		if replayed {
			class += "/replayed"
		}
		desc := fmt.Sprintf("%s cert=%s regWrapper=%v tokLive=%v backend=%s -> issued=%v err=%s", class, cert.Name, w.RW != nil, tokLive, w.Backend, issued, shortErr(err))
		*hist = append(*hist, "fetch "+desc)
		r.Count("ops.fetch", 1)
		r.Count("cases", 1)
		if tok != nil && tokLive && len(sp.Wrapped) == 0 && len(sp.Rewrapped) == 0 {
			tok.consumed = true // any attempt that reaches the token consumes it
		}
		if issued && !may {
			r.Violate("issue-only-authorized", "issued-unauthorized/"+c01Why(nonceClass, encClass, wrapClass, rec != nil), "credentials issued although none of (a),(b),(c) holds: %s", desc)
		}
		if !issued {
			if err == nil && resp == nil {
				r.Violate("refusal-shape", "nil-response-nil-error", "%s", desc)
			}
			if !sameSnapshot(before, after) {
				r.Violate("no-new-record", "record-changed-on-refusal", "a refused request changed the node records (%d -> %d): %s", len(before), len(after), desc)
			}
			if clean {
				// liveness of authorized requests belongs to C04; here it is only a probe that the workload reaches issuing states
				r.Count("probe.authorized_but_refused", 1)
			}
		} else {
			// the response opens with exactly the private key matching the request's encryption key
			opened := 0
			for pub, priv := range privOf {
				ok := tryOpen(w, resp, priv, cert.Pkix)
				if ok {
					opened++
					if pub != string(enc) {
						r.Violate("bound-to-requester", "response-opens-with-other-key", "response can be opened with a key other than the request's: %s", desc)
					}
				} else if pub == string(enc) {
					r.Violate("bound-to-requester", "response-not-openable-by-requester", "%s", desc)
				}
			}
			_ = opened
			// the record behind an issued response is the one of the request's certificate key; nobody else's record moved
			if after[cert.KeyId] == nil {
				r.Violate("issue-only-authorized", "issued-without-record-of-request-key", "credentials issued but no node record is stored under the request key's ID: %s", desc)
			}
			for id, b := range before {
				if id != cert.KeyId && !bytes.Equal(after[id], b) {
					r.Violate("issue-only-authorized", "issue-changed-other-record", "answering a request of key %s changed or removed the record %s: %s", cert.KeyId, id, desc)
				}
			}
			for id := range after {
				if id != cert.KeyId && before[id] == nil {
					r.Violate("issue-only-authorized", "issue-created-foreign-record", "answering a request of key %s created a record under %s: %s", cert.KeyId, id, desc)
				}
			}
			recs[cert.KeyId] = &recModel{nonce, enc}
			if condC && w.Backend == "storeonce" && rec != nil {
				recs[cert.KeyId] = rec
			}
		}
		r.FP(class, may, issued, w.RW != nil, tokLive)
		r.StateFP(len(recs), len(*toks), w.RW != nil, class, issued)
	}
	eval(false)
	c01Saved[r] = append(c01Saved[r], eval)
}

func c01Why(nonceClass, encClass, wrapClass string, known bool) string {
	switch {
	case wrapClass != "none":
		return "wrap-" + wrapClass
	case strings.HasPrefix(nonceClass, "token"):
		return "nonce-" + nonceClass
	case nonceClass != "own":
		return "nonce-" + nonceClass
	case encClass != "own":
		return "enc-" + encClass
	case !known:
		return "unknown-key"
	}
	return "plain"
}

func indexOf(ids []*Ident, x *Ident) int {
	for i, v := range ids {
		if v == x {
			return i
		}
	}
	return -1
}

func sameSnapshot(a, b map[string][]byte) bool {
	if len(a) != len(b) {
		return false
	}
	for k, v := range a {
		if !bytes.Equal(v, b[k]) {
			return false
		}
	}
	return true
}

// keySrc is a harness-side X25519KeyProducer built from raw keys (independent of NodeCredentials).
type keySrc struct {
	id     string
	shared []byte
}

func (k keySrc) X25519EncryptionKey() (string, []byte, error) { return k.id, k.shared, nil }
func (k keySrc) PreviousX25519EncryptionKey() (string, []byte, error) {
	return "", nil, fmt.Errorf("none")
}

// tryOpen attempts to decrypt a fetch response as the holder of priv would.
func tryOpen(w *World, resp *types.FetchNodeCredentialsResponse, priv *ecdh.PrivateKey, certPkix []byte) bool {
	shared := x25519Shared(priv, resp.ServerEncryptionPublicKeyBytes)
	if shared == nil {
		return false
	}
	out := new(types.NodeCredentials)
	ok := false
	kernel.Guard(func() {
		ok = nodeenrollment.DecryptMessage(w.Ctx, resp.EncryptedNodeCredentials, keySrc{keyID(certPkix), shared}, out) == nil
	})
	return ok
}

func init() {
	register(&Prop{ID: "C01", Engine: propC01})
}
