//go:build verif

package engines

import (
	"io"
	"crypto/ed25519"
	"crypto/rand"
	"crypto/tls"
	"crypto/x509"
	"crypto/x509/pkix"
	"encoding/base64"
	"errors"
	"fmt"
	"math/big"
	"net"
	"strings"
	"time"

	wrapping "github.com/hashicorp/go-kms-wrapping/v2"
	"github.com/hashicorp/nodeenrollment"
	"github.com/hashicorp/nodeenrollment/rotation"
	nodetls "github.com/hashicorp/nodeenrollment/tls"
	"github.com/hashicorp/nodeenrollment/types"
	"google.golang.org/protobuf/proto"
	"google.golang.org/protobuf/types/known/structpb"

	"verifsim/kernel"
	"verifsim/simnet"
)

func selfSignedTLS(cn string, eku ...x509.ExtKeyUsage) (tls.Certificate, ed25519.PrivateKey) {
	pub, priv, _ := ed25519.GenerateKey(rand.Reader)
	now := time.Now()
	tmpl := &x509.Certificate{SerialNumber: big.NewInt(1), Subject: pkix.Name{CommonName: cn}, DNSNames: []string{cn}, NotBefore: now.Add(-time.Hour), NotAfter: now.Add(24 * time.Hour),
		KeyUsage: x509.KeyUsageDigitalSignature | x509.KeyUsageCertSign, ExtKeyUsage: eku, BasicConstraintsValid: true, IsCA: true}
	der, _ := x509.CreateCertificate(rand.Reader, tmpl, tmpl, pub, priv)
	return tls.Certificate{Certificate: [][]byte{der}, PrivateKey: priv}, priv
}

// chunkALPN splits like the library does (prefix + NN- + data, <=240 bytes per entry).
func chunkALPN(prefix, value string) []string {
	out, err := nodetls.BreakIntoNextProtos(prefix, value)
	if err != nil {
		return []string{prefix}
	}
	return out
}

// handMadeClientHello builds the bytes of a ClientHello no crypto/tls client would send: a chosen legacy version, no
// supported_versions extension, and an ALPN extension with the given entries.
func handMadeClientHello(legacyVersion uint16, withSupportedVersions bool, alpn []string, random []byte) []byte {
	u16 := func(v int) []byte { return []byte{byte(v >> 8), byte(v)} }
	var al []byte
	for _, p := range alpn {
		if len(p) > 255 {
			p = p[:255]
		}
		al = append(al, byte(len(p)))
		al = append(al, p...)
	}
	var ext []byte
	addExt := func(typ int, body []byte) {
		ext = append(ext, u16(typ)...)
		ext = append(ext, u16(len(body))...)
		ext = append(ext, body...)
	}
	addExt(16, append(u16(len(al)), al...)) // ALPN
	sni := []byte("server")
	addExt(0, append(u16(len(sni)+3), append([]byte{0}, append(u16(len(sni)), sni...)...)...))
	addExt(10, []byte{0, 2, 0, 29})                  // supported_groups: x25519
	addExt(13, []byte{0, 4, 8, 7, 4, 3})             // signature_algorithms: ed25519, ecdsa-p256-sha256
	if withSupportedVersions {
		addExt(43, []byte{2, 3, 4})
	}
	body := append(u16(int(legacyVersion)), random[:32]...)
	body = append(body, 0)                                              // session id
	body = append(body, 0, 6, 0x13, 0x01, 0x13, 0x02, 0xc0, 0x2b)      // cipher suites
	body = append(body, 1, 0)                                           // compression: null
	body = append(body, u16(len(ext))...)
	body = append(body, ext...)
	hs := append([]byte{1, byte(len(body) >> 16), byte(len(body) >> 8), byte(len(body))}, body...)
	rec := append([]byte{22, 3, 1}, u16(len(hs))...)
	return append(rec, hs...)
}

var libPrefixes = []string{nodeenrollment.FetchNodeCredsNextProtoV1Prefix, nodeenrollment.AuthenticateNodeNextProtoV1Prefix, nodeenrollment.CertificatePreferenceV1Prefix}

// hostileALPN builds one adversarial ALPN list; returns the list and a class name.
func hostileALPN(r *kernel.Run, srv *World, registered *Ident) ([]string, string) {
	tp := r.Tape
	prefix := libPrefixes[tp.Draw(2)] // one of the two request prefixes carries the payload
	b64 := func(b []byte) string { return base64.RawStdEncoding.EncodeToString(b) }
	var list []string
	class := ""
	switch tp.Draw(14) {
	case 13:
		// an authentication request naming a well-formed public key of another algorithm, with plausible nonce and signatures
		g := &types.GenerateServerCertificatesRequest{CertificatePublicKeyPkix: foreignAlgorithmPkix(tp.Draw(2)), Nonce: tp.Bytes(32), NonceSignature: tp.Bytes(64)}
		if tp.Draw(2) == 0 {
			g.ClientState, g.ClientStateSignature = detMarshal(mkStruct(r, 2)), tp.Bytes(tp.Range(1, 100))
		}
		b, _ := proto.Marshal(g)
		list, class = chunkALPN(nodeenrollment.AuthenticateNodeNextProtoV1Prefix, b64(b)), "authenticate-with-key-of-other-algorithm"
	case 12:
		// an otherwise valid fetch request whose certificate key is labelled Ed25519 but is a key of another algorithm
		_, info := BuildFetch(HonestSpec(NewIdent("f")))
		info.CertificatePublicKeyPkix = foreignAlgorithmPkix(tp.Draw(2))
		ib, _ := proto.Marshal(info)
		b, _ := proto.Marshal(&types.FetchNodeCredentialsRequest{Bundle: ib, BundleSignature: tp.Bytes(64)})
		list, class = chunkALPN(nodeenrollment.FetchNodeCredsNextProtoV1Prefix, b64(b)), "fetch-with-key-of-other-algorithm"
	case 0:
		list, class = []string{prefix}, "prefix-only"
	case 1:
		list, class = []string{prefix + Pick2(tp, "0", "00", "7", "-", "a")}, "shorter-than-chunk-header"
	case 2:
		list, class = []string{prefix + Pick2(tp, "xx-", "0x-", "---", "99-", "0a-") + "AAAA"}, "non-digit-header"
		if tp.Draw(3) == 0 {
			// a well-formed header with a chunk number no honest client produces
			list, class = []string{prefix + Pick2(tp, "99999-", "4294967296-", "900000000000000-", "18446744073709551616-", "-1-", "007-") + "AAAA"}, "huge-chunk-number"
			if tp.Draw(2) == 0 {
				list = append([]string{prefix + "00-AAAA"}, list...)
			}
		}
	case 3:
		list, class = []string{prefix + "00-" + Pick2(tp, "!!!!", "====", "a", "ab\x00cd", "é")}, "non-base64"
	case 4:
		list, class = chunkALPN(prefix, b64(tp.Bytes(tp.Range(1, 700)))), "base64-random"
	case 5:
		// truncated valid request
		req, _ := BuildFetch(HonestSpec(NewIdent("t")))
		b, _ := proto.Marshal(req)
		list, class = chunkALPN(prefix, b64(b[:tp.Draw(len(b))])), "base64-truncated-request"
	case 6:
		// valid protobuf with unknown fields, deep nesting, oversized strings
		deep := map[string]any{}
		cur := deep
		for i := 0; i < tp.Range(5, 60); i++ {
			n := map[string]any{}
			cur["n"] = n
			cur = n
		}
		st, _ := structpb.NewStruct(deep)
		sb := detMarshal(st)
		g := &types.GenerateServerCertificatesRequest{CertificatePublicKeyPkix: tp.Bytes(tp.Range(0, 100)), Nonce: tp.Bytes(32), NonceSignature: tp.Bytes(64), ClientState: sb, ClientStateSignature: tp.Bytes(64), CommonName: strings.Repeat("x", tp.Range(0, 3000)), NodeId: strings.Repeat("n", tp.Range(0, 300)), SkipVerification: tp.Draw(2) == 0}
		b, _ := proto.Marshal(g)
		b = append(b, 0xf8, 0x7f, 0x01) // unknown field
		list, class = chunkALPN(prefix, b64(b)), "protobuf-odd-fields"
	case 7:
		// a valid, signed fetch request carrying arbitrary re-wrapped ciphertext under a registered key ID
		sp := HonestSpec(NewIdent("f"))
		bi := &wrapping.BlobInfo{Ciphertext: tp.Bytes(tp.Range(0, 40)), KeyInfo: &wrapping.KeyInfo{KeyId: registered.KeyId}}
		if tp.Draw(3) == 0 {
			bi.KeyInfo = nil // the optional part of the envelope left out
		}
		sp.Rewrapped, _ = proto.Marshal(bi)
		if tp.Draw(2) == 0 {
			sp.Rewrapped = tp.Bytes(tp.Range(1, 50))
		}
		sp.RewrapKey = registered.KeyId
		req, _ := BuildFetch(sp)
		b, _ := proto.Marshal(req)
		list, class = chunkALPN(nodeenrollment.FetchNodeCredsNextProtoV1Prefix, b64(b)), "fetch-with-hostile-rewrapped-blob"
	case 8:
		// a valid, signed fetch request carrying a hostile wrapped-registration blob
		sp := HonestSpec(NewIdent("f"))
		bi := &wrapping.BlobInfo{Ciphertext: tp.Bytes(tp.Range(0, 40))}
		sp.Wrapped, _ = proto.Marshal(bi)
		if tp.Draw(2) == 0 {
			sp.Wrapped = tp.Bytes(tp.Range(1, 50))
		}
		req, _ := BuildFetch(sp)
		b, _ := proto.Marshal(req)
		list, class = chunkALPN(nodeenrollment.FetchNodeCredsNextProtoV1Prefix, b64(b)), "fetch-with-hostile-wrapped-blob"
	case 9:
		// mixed and duplicated prefixes, library entries interleaved with foreign names
		n := tp.Range(2, 12)
		for i := 0; i < n; i++ {
			switch tp.Draw(4) {
			case 0:
				list = append(list, libPrefixes[tp.Draw(3)]+fmt.Sprintf("%02d-", tp.Draw(100))+b64(tp.Bytes(tp.Range(0, 100))))
			case 1:
				list = append(list, libPrefixes[tp.Draw(3)]+Pick2(tp, "", "0", "1-", "00"))
			case 2:
				list = append(list, Pick2(tp, "h2", "http/1.1", "v1-nodee-", "V1-NODEE-AUTHENTICATE-NODE-00-AA", "x"+nodeenrollment.AuthenticateNodeNextProtoV1Prefix))
			default:
				list = append(list, libPrefixes[tp.Draw(3)]+"00-"+b64(tp.Bytes(tp.Range(0, 150))))
			}
		}
		class = "mixed-prefixes"
	case 10:
		// as large as a ClientHello allows (ALPN extension is limited to 64 KiB)
		total := tp.Range(20000, 60000)
		list, class = chunkALPN(prefix, b64(tp.Bytes(total*3/4))), "oversized"
	default:
		// empty-ish entries under the certificate preference prefix plus a short request entry
		list, class = []string{nodeenrollment.CertificatePreferenceV1Prefix, prefix + "0"}, "preference-and-short"
	}
	return list, class
}

// C14: no remote input can crash or stop the listener.
func propC14(r *kernel.Run) {
	tp := r.Tape
	srv := NewWorld(r, "server", Pick2(tp, "inmem", "storeonce"), tp.Draw(2) == 0, tp.Draw(2) == 0)
	if _, err := rotation.RotateRootCertificates(srv.Ctx, srv.Storage, srv.Opts()...); err != nil {
		r.HarnessErr("roots: %v", err)
	}
	if tp.Draw(2) == 0 {
		srv.RW = newAead(r, "registration")
	}
	nodeW := NewWorld(r, "node", "inmem", false, false)
	_, honest := enrollStored(r, srv, nodeW, nil, "")
	var base *tls.Config
	if tp.Draw(2) == 0 {
		c, _ := selfSignedTLS("base.example", x509.ExtKeyUsageServerAuth)
		base = &tls.Config{Certificates: []tls.Certificate{c}, NextProtos: []string{"h2", "http/1.1"}}
	}
	w := NewWire(r, srv, base, srv.Opts())
	w.Net.Frag = tp.Draw(2) == 0
	w.StartAcceptor("acceptor")
	w.Quiesce()

	nconn := tp.Range(2, r.Deep(7, 20))
	var hist []string
	judge := func(kind, class string, expectAtMostOneErr bool) {
		for _, a := range w.Take() {
			r.Count("oracle.accept_results", 1)
			switch {
			case a.panicMsg != "":
				r.Violate("no-panic", "accept-panic/"+a.panicSite, "Accept panicked on a %s/%s connection: %s", kind, class, a.panicMsg)
			case a.err != nil && !a.temporary:
				r.Violate("temporary-errors", "non-temporary-error-for-connection", "Accept returned a non-temporary error for a %s/%s connection while the base listener is healthy: %v", kind, class, a.err)
			case a.err == nil && strings.HasPrefix(a.negotiated, nodeenrollment.AuthenticateNodeNextProtoV1Prefix) && kind != "honest" && kind != "dropped-handshake":
				r.Violate("hostile-not-authenticated", "hostile-connection-authenticated", "a %s/%s connection was returned as authenticated", kind, class)
			}
			if a.raw != nil && kind != "honest" {
				a.raw.Close()
			}
		}
	}
	// outage: the clock jumped past the validity of the server's roots and/or the node's certificates without anybody
	// rotating (server was down, operator asleep). While it lasts an honest node may be unable to connect; what must
	// still hold is that nothing panics and every failure stays a temporary, per-connection error. After recovery
	// (roots rotated, node enrolled again) the honest node connects again.
	outage := false
	var idleTotal time.Duration
	honestDial := func(after string) {
		if tp.Draw(4) == 0 {
			// nothing happens for a while (seconds to hours): the listener sits in Accept
			d := time.Duration(tp.Range(1, 40)) * time.Second
			if tp.Draw(3) == 0 {
				d = tp.DurLog(time.Minute, 12*time.Hour)
			}
			if idleTotal+d < 3*24*time.Hour { // stay well inside the validity of the honest node's certificates
				idleTotal += d
				r.Sleep(d)
				r.Count("ops.idle_period_before_honest_dial", 1)
			}
		}
		res := w.DialHonest(fmt.Sprintf("honest%d", r.NextID()), nodeW, w.Addr)
		w.Quiesce()
		if !res.done {
			r.Violate("keeps-accepting", "honest-dial-stuck/"+after, "an honest dial after a %s connection did not finish (listener no longer accepting?) parked=%v", after, r.Sched.ParkedAt())
		}
		if outage {
			for _, a := range w.Take() {
				switch {
				case a.panicMsg != "":
					r.Violate("no-panic", "accept-panic/"+a.panicSite, "Accept panicked on an honest connection during a validity outage: %s", a.panicMsg)
				case a.err != nil && !a.temporary:
					r.Violate("temporary-errors", "non-temporary-error-for-connection", "non-temporary error while serving an honest node during a validity outage: %v", a.err)
				}
				if a.raw != nil {
					a.raw.Close()
				}
			}
			if res.conn != nil {
				res.conn.Close()
				r.Count("probe.honest_connects_during_outage", 1)
			}
			w.Quiesce()
			w.Take()
			r.Count("ops.honest_dial_during_outage", 1)
			return
		}
		if res.err != nil {
			r.Violate("keeps-accepting", "honest-dial-failed", "an honest node could not connect after a %s connection: %v", after, shortErr(res.err))
		}
		got := w.Take()
		okc := 0
		for _, a := range got {
			if a.panicMsg != "" {
				r.Violate("no-panic", "accept-panic/"+a.panicSite, "Accept panicked on an honest connection: %s", a.panicMsg)
			}
			if a.err == nil && strings.HasPrefix(a.negotiated, nodeenrollment.AuthenticateNodeNextProtoV1Prefix) {
				okc++
				if res.conn != nil && tp.Draw(4) == 0 {
					// the connection is the application's now: it is still usable after the listener has long moved on
					r.Sleep(time.Duration(tp.Range(11, 300)) * time.Second)
					var rerr, werr error
					buf := make([]byte, 4)
					srvConn, cliConn := a.raw, res.conn
					r.Sched.Go(fmt.Sprintf("use-cli%d", r.NextID()), "app", func() { _, werr = cliConn.Write([]byte("ping")) })
					r.Sched.Go(fmt.Sprintf("use-srv%d", r.NextID()), "app", func() { _, rerr = io.ReadFull(srvConn, buf) })
					w.Quiesce()
					if werr != nil || rerr != nil || string(buf) != "ping" {
						r.Violate("keeps-accepting", "accepted-connection-unusable-later", "an authenticated connection handed to the application could not carry data some seconds later: write err=%v read err=%v got %q", werr, rerr, buf)
					}
					r.Count("ops.connection_used_later", 1)
				}
				a.raw.Close()
			} else if a.err != nil && !a.temporary {
				r.Violate("temporary-errors", "non-temporary-error-for-connection", "non-temporary error while serving an honest node: %v", a.err)
			}
		}
		if okc != 1 {
			r.Violate("keeps-accepting", "honest-connection-not-delivered", "honest dial succeeded on the node side but Accept delivered %d authenticated connections (after %s)", okc, after)
		}
		res.conn.Close()
		w.Quiesce()
		w.Take()
		r.Count("ops.honest_dial", 1)
	}

	jumpAt := -1
	if tp.Draw(3) == 0 {
		jumpAt = tp.Draw(nconn)
	}
	for i := 0; i < nconn; i++ {
		name := fmt.Sprintf("hostile%d", i)
		if i == jumpAt {
			// clock jump: 8d = next root has started, 15d = current expired and nobody rotated, 22d/40d = everything expired
			d := []time.Duration{8 * 24 * time.Hour, 15 * 24 * time.Hour, 22 * 24 * time.Hour, 40 * 24 * time.Hour}[tp.Draw(4)]
			r.Sleep(d + time.Duration(tp.Draw(3600))*time.Second)
			outage = true
			r.Count("fault.clock_jump_past_validity", 1)
			r.Tracef("clock jump %v: validity outage begins", d)
		}
		kind := Pick2(tp, "raw-bytes", "alpn", "alpn", "alpn", "dropped-handshake", "dropped-handshake", "stall-then-drop", "unauthorized-fetch", "peer-aborts-with-alert", "forged-requests-naming-the-honest-node", "hand-made-client-hello")
		class := ""
		// the server's own Close of a refused/handled connection may report an error (peer reset): still a per-connection matter
		closeErr := tp.Draw(4) == 0
		if closeErr && kind != "dropped-handshake" {
			w.Net.NextFault = func(c *simnet.Conn) {
				c.Peer.CloseErr = errors.New("simulated: close: connection reset by peer")
				w.Net.NextFault = nil
			}
			r.Count("fault.close_reports_error", 1)
		}
		switch kind {
		case "raw-bytes":
			payload := tp.Bytes(tp.Range(0, 400))
			if tp.Draw(3) == 0 && len(payload) > 5 {
				payload[0], payload[1], payload[2] = 22, 3, 1 // looks like a TLS handshake record, then garbage
			}
			class = fmt.Sprintf("%dB", len(payload))
			r.Sched.Go(name, "adversary", func() {
				c, err := w.Net.Dial(w.Addr, name)
				if err != nil {
					return
				}
				c.Write(payload)
				c.Close()
			})
			r.Count("fault.garbage_bytes", 1)
		case "alpn":
			var list []string
			list, class = hostileALPN(r, srv, honest)
			cert, _ := selfSignedTLS("attacker", x509.ExtKeyUsageClientAuth)
			withCert := tp.Draw(3) != 0
			cfg := &tls.Config{NextProtos: list, InsecureSkipVerify: true, MinVersion: tls.VersionTLS13, ServerName: "server"}
			if withCert {
				cfg.Certificates = []tls.Certificate{cert}
			}
			res := w.rawClient(name, cfg)
			_ = res
			r.Count("fault.malformed_alpn."+class, 1)
		case "dropped-handshake":
			// an honest handshake whose connection the network drops at the k-th write of either side
			k := tp.Draw(8)
			side := tp.Draw(2)
			keep := 0
			if tp.Draw(2) == 0 {
				keep = tp.Range(1, 200)
			}
			class = fmt.Sprintf("%s-write-%d-keep-%d", [...]string{"client", "server"}[side], k, keep)
			armed := false
			w.Net.NextFault = func(c *simnet.Conn) {
				if armed {
					return
				}
				armed = true
				t := c
				if side == 1 {
					t = c.Peer
				}
				t.DropAtWrite, t.DropKeep = k, keep
			}
			res := w.DialHonest(name, nodeW, w.Addr)
			_ = res
			r.Count("fault.dropped_handshake", 1)
		case "peer-aborts-with-alert":
			// a TLS client that verifies the certificate it is shown against an empty pool and aborts the handshake with a
			// fatal alert: the server sees the peer's alert (a net.Error), which is still a per-connection matter
			list := []string{"h2"}
			class = "base-tls-client-rejects-certificate"
			if tp.Draw(2) == 0 {
				req, _ := BuildFetch(HonestSpec(NewIdent("f")))
				b, _ := proto.Marshal(req)
				list, class = chunkALPN(nodeenrollment.FetchNodeCredsNextProtoV1Prefix, base64.RawStdEncoding.EncodeToString(b)), "fetch-client-rejects-certificate"
			}
			cert, _ := selfSignedTLS("attacker", x509.ExtKeyUsageClientAuth)
			w.rawClient(name, &tls.Config{NextProtos: list, RootCAs: x509.NewCertPool(), MinVersion: tls.VersionTLS13, ServerName: "server", Certificates: []tls.Certificate{cert}})
			r.Count("fault.peer_alert", 1)
		case "hand-made-client-hello":
			// a ClientHello written by hand: an ancient legacy version and no supported_versions extension (or a modern one),
			// with ALPN entries under the library's prefixes
			ver := []uint16{0x0300, 0x0200, 0x0301, 0x0302, 0x0303, 0x0000}[tp.Draw(6)]
			sv := tp.Draw(4) == 0
			list, cls := hostileALPN(r, srv, honest)
			if tp.Draw(2) == 0 {
				list = []string{libPrefixes[tp.Draw(3)] + "00-AAAA"}
			}
			total := 0
			for i, p := range list {
				if total += len(p) + 1; total > 15000 {
					list = list[:i]
					break
				}
			}
			class = fmt.Sprintf("legacy-version-%04x-supported-versions-%v/%s", ver, sv, cls)
			var then []byte
			if tp.Draw(3) == 0 {
				// a modern, acceptable hello carrying a well-signed fetch request - and then something that is not TLS at all
				ver, sv = 0x0303, true
				freq, _ := BuildFetch(HonestSpec(NewIdent("f")))
				fb, _ := proto.Marshal(freq)
				list = chunkALPN(nodeenrollment.FetchNodeCredsNextProtoV1Prefix, base64.RawStdEncoding.EncodeToString(fb))
				then = []byte(Pick2(tp, "GET / HTTP/1.0\r\n\r\n", "HEAD / HTTP/1.1\r\n\r\n", "POST /x HTTP/1.1\r\n\r\n", "PUT /x HTTP/1.1\r\n\r\n", "OPTIONS * HTTP/1.1\r\n\r\n", "SSH-2.0-x\r\n"))
				class = "valid-hello-then-plaintext-protocol"
			}
			payload := handMadeClientHello(ver, sv, list, tp.Bytes(32))
			r.Sched.Go(name, "adversary", func() {
				c, err := w.Net.Dial(w.Addr, name)
				if err != nil {
					return
				}
				c.Write(payload)
				buf := make([]byte, 4096)
				c.Read(buf) // whatever the server answers (an alert, a ServerHello)
				if then != nil {
					c.Write(then)
					c.Read(buf)
				}
				c.Close()
			})
			r.Count("fault.hand_made_client_hello", 1)
		case "forged-requests-naming-the-honest-node":
			// anybody can read a node's public key off the wire: a burst of authentication requests that name the honest
			// node's key with worthless signatures. They fail; the honest node is not affected.
			nburst := tp.Range(3, 9)
			class = "burst"
			for b := 0; b < nburst; b++ {
				nonce := tp.Bytes(32)
				g := &types.GenerateServerCertificatesRequest{CertificatePublicKeyPkix: honest.Pkix, Nonce: nonce, NonceSignature: tp.Bytes(64)}
				gb, _ := proto.Marshal(g)
				cert, _ := selfSignedTLS("attacker", x509.ExtKeyUsageClientAuth)
				w.rawClient(fmt.Sprintf("%s-%d", name, b), &tls.Config{NextProtos: chunkALPN(nodeenrollment.AuthenticateNodeNextProtoV1Prefix, base64.RawStdEncoding.EncodeToString(gb)), InsecureSkipVerify: true, MinVersion: tls.VersionTLS13, ServerName: "server", Certificates: []tls.Certificate{cert}})
				w.Quiesce()
			}
			r.Count("fault.forged_requests_naming_honest_node", int64(nburst))
		case "unauthorized-fetch":
			// not hostile as such: an unauthorized node fetching; the fetch handshake completes and the server closes the connection
			class = "pending-node"
			pw := NewWorld(r, fmt.Sprintf("pending%d", i), "inmem", false, false)
			if _, err := types.NewNodeCredentials(pw.Ctx, pw.Storage); err != nil {
				r.HarnessErr("pending creds: %v", err)
			}
			res := w.DialHonest(name, pw, w.Addr)
			_ = res
			r.Count("ops.unauthorized_fetch", 1)
		case "stall-then-drop":
			cut := tp.Range(0, 300)
			class = fmt.Sprintf("partial-hello-%dB", cut)
			r.Sched.Go(name, "adversary", func() {
				c, err := w.Net.Dial(w.Addr, name)
				if err != nil {
					return
				}
				// a partial, well-formed-looking handshake record, then silence, then the peer goes away
				hdr := []byte{22, 3, 1, 2, 0, 1, 0, 1, 252, 3, 3}
				body := append(hdr, tp.Bytes(300)...)
				if cut > len(body) {
					cut = len(body)
				}
				c.Write(body[:cut])
				time.Sleep(time.Duration(tp.Range(1, 120)) * time.Second)
				c.Close()
			})
			r.Count("fault.stall_then_drop", 1)
		}
		w.Quiesce()
		// stalled peers wake up on the fake clock
		for j := 0; j < 4 && r.Sched.Live() > 1; j++ {
			r.Sleep(130 * time.Second)
			w.Quiesce()
		}
		w.Net.NextFault = nil
		judge(kind, class, true)
		hist = append(hist, kind+"/"+class)
		r.FP(kind, classKey(class), closeErr, base != nil, w.Net.Frag, srv.RW != nil, i)
		r.Count("cases", 1)
		if tp.Draw(2) == 0 {
			honestDial(kind + "/" + classKey(class))
		}
	}
	if outage {
		honestDial("last-hostile-during-outage")
		// recovery: the operator rotates the roots (twice: the first call may only promote) and the node enrolls afresh
		for k := 0; k < 2; k++ {
			if _, err := rotation.RotateRootCertificates(srv.Ctx, srv.Storage, srv.Opts()...); err != nil {
				r.Violate("keeps-accepting", "cannot-recover-roots", "root rotation after a validity outage failed: %v", shortErr(err))
			}
		}
		nodeW = NewWorld(r, "node-after-outage", "inmem", false, false)
		enrollStored(r, srv, nodeW, nil, "")
		outage = false
		r.Count("ops.recovered_from_outage", 1)
	}
	honestDial("last-hostile")
	// only closure or failure of the underlying listener produces a non-temporary error
	if tp.Draw(2) == 0 {
		w.Ln.Close()
		w.Quiesce()
		got := w.Take()
		if len(got) != 1 || got[0].err == nil || got[0].temporary || !errors.Is(got[0].err, net.ErrClosed) {
			r.Violate("closure", "close-not-reported", "after closing the base listener Accept returned %v", describeAccepts(got))
		}
	} else {
		w.Ln.Fail(errors.New("simulated: accept: too many open files in system"))
		w.Quiesce()
		got := w.Take()
		if len(got) != 1 || got[0].err == nil || got[0].temporary {
			r.Violate("closure", "listener-failure-not-reported", "after the base listener failed Accept returned %v", describeAccepts(got))
		}
	}
	if r.Index%150 == 0 {
		r.SetSample(map[string]any{"hostile_connections": hist, "base_tls_config": base != nil, "fragmented_reads": w.Net.Frag})
	}
}

func classKey(c string) string {
	if i := strings.IndexAny(c, "0123456789"); i == 0 {
		return "sized"
	}
	if strings.HasPrefix(c, "client-write") || strings.HasPrefix(c, "server-write") {
		return c[:strings.Index(c, "-keep")]
	}
	if strings.HasPrefix(c, "partial-hello") {
		return "partial-hello"
	}
	return c
}

func describeAccepts(as []*acceptRes) string {
	var s []string
	for _, a := range as {
		s = append(s, fmt.Sprintf("{err=%v temporary=%v panic=%q negotiated=%q}", a.err, a.temporary, a.panicMsg, a.negotiated))
	}
	return fmt.Sprint(s)
}

func init() {
	register(&Prop{ID: "C14", Engine: propC14})
}
