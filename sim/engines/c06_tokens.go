//go:build verif

package engines

import (
	"math"
	"bytes"
	"fmt"
	"os"
	"path/filepath"
	"strings"
	"time"

	"github.com/hashicorp/nodeenrollment"
	"github.com/hashicorp/nodeenrollment/registration"
	"github.com/hashicorp/nodeenrollment/rotation"
	"github.com/hashicorp/nodeenrollment/storage/file"
	"github.com/hashicorp/nodeenrollment/types"
	"github.com/mr-tron/base58"
	"google.golang.org/protobuf/proto"
	"google.golang.org/protobuf/types/known/timestamppb"

	"verifsim/kernel"
	"verifsim/simstore"
)

type simToken struct {
	idx      int
	id       string
	token    string
	payload  []byte
	hmacKey  []byte
	created  time.Time
	attempts int  // use attempts made while the model considered it live
	enrolled int  // successful enrollments
	broken   bool // sealed value of another token transplanted: loads must fail
	flipped  bool // a bit of the sealed blob flipped: loads may fail
	state    bool
}

func countNodeInfos(w *World) map[string][]byte {
	return simstore.Snapshot(w.Ctx, w.Inner, (*types.NodeInformation)(nil))
}

// C06: activation tokens are single-use, expiring and not recoverable from storage.
func propC06(r *kernel.Run) {
	tp := r.Tape
	backend := backends[tp.Draw(3)]
	sw := tp.Draw(3) != 0
	w := NewWorld(r, "server", backend, sw, false)
	if _, err := rotation.RotateRootCertificates(w.Ctx, w.Storage, w.Opts()...); err != nil {
		r.HarnessErr("bootstrap roots: %v", err)
	}
	var max time.Duration
	switch tp.Draw(6) {
	case 5:
		// "practically never": lifetimes of centuries, up to the largest duration there is
		max = []time.Duration{200 * 365 * 24 * time.Hour, 250 * 365 * 24 * time.Hour, math.MaxInt64 - 1, math.MaxInt64}[tp.Draw(4)]
		r.Count("cfg.lifetime_of_centuries", 1)
	case 0:
		max = nodeenrollment.DefaultMaximumServerLedActivationTokenLifetime
	case 4:
		max = 0 // every token whose age exceeds zero is expired
	case 1:
		max = time.Duration(tp.Range(1, 50))
	default:
		max = tp.DurLog(time.Nanosecond, 3*365*24*time.Hour)
	}
	useOpts := w.Opts(nodeenrollment.WithMaximumServerLedActivationTokenLifetime(max))
	// how far this run moves the clock: up to the lifetime, but not across centuries
	span := max
	if span > 3*365*24*time.Hour {
		span = 3 * 365 * 24 * time.Hour
	}
	w.St.OnSecret = func(msgType, field, name string) {
		if msgType == "ServerLedActivationToken" {
			r.Violate("not-recoverable", "token-material-stored/"+field, "stored token record contains %s in field %s", name, field)
		}
	}
	var hist []string
	note := func(x string) { hist = append(hist, x); r.Tracef("%s", x) }
	var toks []*simToken
	nodes := []*Ident{NewIdent("A"), NewIdent("B"), NewIdent("C")}
	registered := map[string]bool{}
	nops := tp.Range(4, r.Deep(25, 80))
	create := func() {
		withState := tp.Draw(2) == 0
		opts := w.Opts()
		if withState {
			opts = append(opts, nodeenrollment.WithState(mkStruct(r, 2)))
		}
		at := time.Now()
		id, tok, err := registration.CreateServerLedActivationToken(w.Ctx, w.Storage, &types.ServerLedRegistrationRequest{}, opts...)
		if err != nil {
			r.Violate("token-create", "create-failed", "token creation failed on fault-free storage: %v", err)
		}
		payload, derr := base58.FastBase58Decoding(strings.TrimPrefix(tok, nodeenrollment.ServerLedActivationTokenPrefix))
		if derr != nil {
			r.Violate("token-create", "token-undecodable", "%v", derr)
		}
		tn := new(types.ServerLedActivationTokenNonce)
		if err := proto.Unmarshal(payload, tn); err != nil {
			r.Violate("token-create", "token-undecodable", "%v", err)
		}
		t := &simToken{idx: len(toks), id: id, token: tok, payload: payload, hmacKey: tn.HmacKeyBytes, created: at, state: withState}
		toks = append(toks, t)
		// what must never be found in the persisted token record
		for _, c := range w.St.Calls {
			if c.Kind == "store" && c.Type == "ServerLedActivationToken" && c.Id == id {
				for name, sec := range map[string][]byte{"the token string": []byte(tok), "the token's base58 payload": []byte(strings.TrimPrefix(tok, nodeenrollment.ServerLedActivationTokenPrefix)), "the token's raw payload": payload, "the token's HMAC key": tn.HmacKeyBytes} {
					if bytes.Contains(c.Bytes, sec) {
						r.Violate("not-recoverable", "token-material-stored", "the record persisted for token %d contains %s", t.idx, name)
					}
				}
				if raw, err := base58.FastBase58Decoding(c.Id); err == nil && bytes.Contains(raw, tn.HmacKeyBytes) {
					r.Violate("not-recoverable", "token-material-stored/id", "the storage ID of token %d contains its HMAC key", t.idx)
				}
			}
		}
		w.St.AddSecret(fmt.Sprintf("token%d-hmac-key", t.idx), tn.HmacKeyBytes)
		w.St.AddSecret(fmt.Sprintf("token%d-payload", t.idx), payload)
		note(fmt.Sprintf("create t%d state=%v", t.idx, withState))
		r.Count("ops.create_token", 1)
	}
	create()
	for i := tp.Draw(3); i > 0; i-- {
		r.Sleep(tp.DurLog(time.Nanosecond, span+1))
		create()
	}
	var kinds []string
	for op := 0; op < nops; op++ {
		switch k := tp.Draw(10); {
		case k == 0 && len(toks) < 4:
			create()
		case k <= 4: // use
			t := toks[tp.Draw(len(toks))]
			n := nodes[tp.Draw(len(nodes))]
			now := time.Now()
			age := now.Sub(t.created)
			storedBefore := tokenPresent(w, t.id)
			dead := t.enrolled > 0 || t.broken || age > max
			liveByModel := !dead
			before := countNodeInfos(w)
			sp := HonestSpec(n)
			sp.Nonce = t.payload
			if tp.Draw(3) == 0 {
				// the node signed its request some time ago (queued, relayed) or simply back-dates it: the token's age is
				// measured against the server's clock all the same
				sp.NotBefore = sp.NotBefore.Add(-tp.DurLog(time.Nanosecond, 5*365*24*time.Hour))
			}
			req, _ := BuildFetch(sp)
			var resp *types.FetchNodeCredentialsResponse
			var err error
			// the server application may answer without persisting the node record itself (WithSkipStorage: it stores the
			// record elsewhere); the token is used up all the same
			skip := tp.Draw(8) == 0
			fopts := useOpts
			if skip {
				fopts = append(append([]nodeenrollment.Option{}, useOpts...), nodeenrollment.WithSkipStorage(true))
				r.Count("cfg.fetch_with_skip_storage", 1)
			}
			if p, msg, _ := kernel.Guard(func() { resp, err = registration.FetchNodeCredentials(w.Ctx, w.Storage, req, fopts...) }); p {
				// reachable only through a tampered stored record (the storage wrapper's Decrypt on a damaged sealed blob):
				// the statement asks that such a fetch fails and creates nothing, which a panic also does; counted, not judged
				r.Count("probe.panic_on_tampered_sealed_record", 1)
				resp, err = nil, fmt.Errorf("panic: %s", msg)
				if !t.flipped && !t.broken {
					r.Violate("no-panic", "token-use-panic-untampered", "FetchNodeCredentials panicked on an untampered token record: %s", msg)
				}
			}
			after := countNodeInfos(w)
			ok := err == nil && resp != nil && len(resp.EncryptedNodeCredentials) > 0
			created := len(after) > len(before)
			desc := fmt.Sprintf("use t%d by %s age=%v max=%v enrolledBefore=%d storedBefore=%v transplanted=%v bitFlipped=%v nodeRegistered=%v wrapper=%v backend=%s", t.idx, n.Name, age, max, t.enrolled, storedBefore, t.broken, t.flipped, registered[n.KeyId], sw, backend)
			if skip {
				desc += " skipStorage=true"
			}
			note(desc + fmt.Sprintf(" -> ok=%v err=%s", ok, shortErr(err)))
			r.Count("ops.use_token", 1)
			switch {
			case registered[n.KeyId]:
				// "it cannot enroll a key that already has a node record"
				if ok && t.enrolled == 0 && liveByModel {
					r.Violate("no-existing-key", "token-enrolled-existing-key", "%s", desc)
				}
				if !bytes.Equal(before[n.KeyId], after[n.KeyId]) {
					r.Violate("no-existing-key", "existing-record-changed", "existing record of %s changed: %s", n.Name, desc)
				}
				if ok {
					r.Violate("single-use", "dead-token-accepted/existing-key", "%s", desc)
				}
			case dead:
				why := "used"
				switch {
				case t.broken:
					why = "sealed-value-tampered"
				case age > max:
					why = "expired"
				}
				if ok || created {
					r.Violate("single-use", "dead-token-accepted/"+why, "a %s token produced credentials=%v record=%v: %s", why, ok, created, desc)
				}
			default:
				if age < max && !t.flipped && storedBefore {
					if !ok || (!created && !skip) {
						r.Violate("token-works", "live-token-refused", "a fresh unused token was refused (err=%v): %s", shortErr(err), desc)
					}
				}
				if ok {
					t.enrolled++
					registered[n.KeyId] = created
					if ni, lerr := types.LoadNodeInformation(w.Ctx, w.Inner, n.KeyId, w.Opts()...); lerr == nil {
						if t.state != (ni.State != nil) {
							r.Violate("token-works", "token-state-lost", "token state presence %v but record state presence %v: %s", t.state, ni.State != nil, desc)
						}
					}
				}
			}
			if t.enrolled > 1 {
				r.Violate("single-use", "token-enrolled-twice", "%s", desc)
			}
			t.attempts++
			// a used token must be gone from storage
			if ok {
				if err := w.Inner.Load(w.Ctx, &types.ServerLedActivationToken{Id: t.id}); err == nil {
					r.Violate("single-use", "used-token-still-stored", "%s", desc)
				}
			}
			kinds = append(kinds, fmt.Sprintf("u%v%v%v", liveByModel, t.broken || t.flipped, ok))
			if len(kinds) > 4 {
				kinds = kinds[1:]
			}
			r.FP("use", liveByModel, registered[n.KeyId], t.broken, t.flipped, age > max, age == max, sw, backend, storedBefore, kinds)
			r.StateFP(liveByModel, t.attempts, t.enrolled, t.broken, age > max)
		case k <= 6: // age: land on the boundary of some token
			t := toks[tp.Draw(len(toks))]
			target := t.created.Add(span).Add(time.Duration(tp.Draw(5)-2) * time.Nanosecond)
			if tp.Draw(3) == 0 {
				target = time.Now().Add(tp.DurLog(time.Nanosecond, 2*span+1))
			}
			if d := time.Until(target); d > 0 {
				r.Sleep(d)
				note(fmt.Sprintf("sleep %v", d))
				r.Count("ops.clock_jump", 1)
			}
		default: // tamper with the stored record, keeping it sealed
			t := toks[tp.Draw(len(toks))]
			raw := &types.ServerLedActivationToken{Id: t.id}
			if err := w.Inner.Load(w.Ctx, raw); err != nil {
				continue
			}
			kind := tp.Draw(4)
			if !sw {
				kind = 0 // without a wrapper the marshaled time is not sealed; only the advisory clear field is edited
			}
			if kind == 3 {
				// disk adversary on the file back end: the whole stored record of a newer token is copied over this token's file
				fs, ok := w.Inner.(*file.Storage)
				var donor *simToken
				for _, o := range toks {
					if o != t && o.created.After(t.created) {
						donor = o
					}
				}
				if !ok || donor == nil {
					continue
				}
				draw := &types.ServerLedActivationToken{Id: donor.id}
				if err := w.Inner.Load(w.Ctx, draw); err != nil {
					continue
				}
				b, _ := proto.Marshal(draw)
				if err := os.WriteFile(filepath.Join(fs.BaseDir(), "serverledactivationtokens", t.id), b, 0o600); err != nil {
					r.HarnessErr("overwrite token file: %v", err)
				}
				t.broken = true
				r.Count("fault.tamper.whole_record_of_newer_token_copied", 1)
				note(fmt.Sprintf("tamper t%d: whole record of t%d copied over its file", t.idx, donor.idx))
				continue
			}
			switch kind {
			case 0:
				raw.CreationTime = timestamppb.New(time.Now().Add(tp.DurLog(time.Second, 1000*time.Hour)))
				r.Count("fault.tamper.clear_creation_time", 1)
				note(fmt.Sprintf("tamper t%d: clear creation_time moved later", t.idx))
			case 1:
				// transplant the sealed creation time of a newer token
				donor := &simToken{}
				for _, o := range toks {
					if o != t && o.created.After(t.created) {
						donor = o
					}
				}
				if donor.id == "" {
					continue
				}
				draw := &types.ServerLedActivationToken{Id: donor.id}
				if err := w.Inner.Load(w.Ctx, draw); err != nil {
					continue
				}
				raw.CreationTimeMarshaled = draw.CreationTimeMarshaled
				raw.CreationTime = draw.CreationTime
				t.broken = true
				r.Count("fault.tamper.transplant_sealed_time", 1)
				note(fmt.Sprintf("tamper t%d: sealed creation time of t%d transplanted", t.idx, donor.idx))
			case 2:
				if len(raw.CreationTimeMarshaled) == 0 {
					continue
				}
				i := tp.Draw(len(raw.CreationTimeMarshaled) * 8)
				raw.CreationTimeMarshaled[i/8] ^= 1 << (i % 8)
				t.flipped = true
				r.Count("fault.tamper.flip_sealed_bit", 1)
				note(fmt.Sprintf("tamper t%d: bit %d of sealed creation time flipped", t.idx, i))
			}
			if raw.Id != t.id {
				continue // this file already holds another token's whole record; leave it
			}
			if err := w.Inner.Store(w.Ctx, raw); err != nil {
				r.HarnessErr("tamper store: %v", err)
			}
		}
	}
	if r.Index%300 == 0 {
		if len(hist) > 14 {
			hist = hist[:14]
		}
		r.SetSample(map[string]any{"max_lifetime": max.String(), "storage_wrapper": sw, "backend": backend, "history": hist})
	}
}

func init() {
	register(&Prop{ID: "C06", Engine: propC06})
}
