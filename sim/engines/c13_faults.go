//go:build verif

package engines

import (
	"bytes"
	"crypto/ed25519"
	"crypto/x509"
	"fmt"
	"strings"
	"time"

	"github.com/hashicorp/nodeenrollment"
	"github.com/hashicorp/nodeenrollment/registration"
	"github.com/hashicorp/nodeenrollment/rotation"
	nodetls "github.com/hashicorp/nodeenrollment/tls"
	"github.com/hashicorp/nodeenrollment/types"
	"github.com/mr-tron/base58"
	"google.golang.org/protobuf/proto"

	"verifsim/kernel"
	"verifsim/simstore"
)

// flowCtx is the world one fault case runs in.
type flowCtx struct {
	r        *kernel.Run
	srv      *World
	node     *World
	target   *World    // the side whose storage is faulted
	by       *nodeSide // bystander: another node's record that must never change
	id       *Ident
	a        *nodeSide
	req      *types.FetchNodeCredentialsRequest
	tokenID  string
	creds    *types.NodeCredentials
	resp     *types.FetchNodeCredentialsResponse
	call     func() error
	verify   func(err error)
	rootsPre *types.RootCertificates
	// rootsUsable: before the call current was valid, or current had expired and next was valid (no start-over due)
	rootsUsable bool
	noRetry     bool
	lied        bool // one of the injected faults made storage claim an existing record is absent
}

type faultFlow struct {
	name  string
	build func(fc *flowCtx)
}

func (fc *flowCtx) v(oracle, sig, format string, a ...any) {
	fc.r.Violate(oracle, sig, format, a...)
}

func loadInfo(w *World, id string) *types.NodeInformation {
	ni, err := types.LoadNodeInformation(contextBG, w.Inner, id, w.Opts()...)
	if err != nil {
		return nil
	}
	return ni
}

func tokenPresent(w *World, id string) bool {
	return w.Inner.Load(contextBG, &types.ServerLedActivationToken{Id: id}) == nil
}

func fetchVerify(fc *flowCtx, flow string, viaToken bool) func(err error) {
	return func(err error) {
		issued := err == nil && fc.resp != nil && len(fc.resp.EncryptedNodeCredentials) > 0
		if err != nil && fc.resp != nil && len(fc.resp.EncryptedNodeCredentials) > 0 {
			fc.v("fail-closed", "credentials-with-error/"+flow, "fetch returned an error and credentials")
		}
		rec := loadInfo(fc.srv, fc.id.KeyId)
		if issued {
			if rec == nil {
				fc.v("durable", "credentials-without-record/"+flow, "credentials were issued but no node record is stored")
			}
			if !bytes.Equal(rec.EncryptionPublicKeyBytes, fc.id.EncPub) || !bytes.Equal(rec.RegistrationNonce, noncOf(fc.req)) {
				fc.v("durable", "record-differs-from-response/"+flow, "stored record does not match the request the credentials were issued for")
			}
			priv := fc.id.EncPriv
			if !tryOpen(fc.srv, fc.resp, priv, fc.id.Pkix) {
				fc.v("durable", "response-not-openable/"+flow, "issued response cannot be opened by the requester")
			}
			// a success under a storage fault is a complete success: the response carries the current root's signature
			// like any other (the node is entitled to check it)
			if roots, lerr := types.LoadRootCertificates(contextBG, fc.srv.Inner, fc.srv.Opts()...); lerr == nil {
				if pk, perr := x509.ParsePKIXPublicKey(roots.Current.PublicKeyPkix); perr == nil {
					if epk, ok := pk.(ed25519.PublicKey); ok && !ed25519.Verify(epk, fc.resp.EncryptedNodeCredentials, fc.resp.EncryptedNodeCredentialsSignature) {
						fc.v("fail-closed", "credentials-handed-out-unsigned/"+flow, "fetch reported success and handed out credentials without a valid signature by the stored current root (signature %d bytes)", len(fc.resp.EncryptedNodeCredentialsSignature))
					}
				}
			}
			// the response must be built from the stored record's server key
			if sk := x25519PubOf(rec.ServerEncryptionPrivateKeyBytes); !bytes.Equal(sk, fc.resp.ServerEncryptionPublicKeyBytes) {
				fc.v("durable", "response-key-not-persisted/"+flow, "response carries a server key that is not the stored record's")
			}
		}
		if viaToken && rec != nil && tokenPresent(fc.srv, fc.tokenID) {
			fc.v("token-consumed", "token-usable-after-record-created", "a node record was created through the token but the token is still stored")
		}
	}
}

func noncOf(req *types.FetchNodeCredentialsRequest) []byte {
	info := new(types.FetchNodeCredentialsInfo)
	proto.Unmarshal(req.Bundle, info)
	return info.Nonce
}

func x25519PubOf(priv []byte) []byte {
	k, err := ecdhKey(priv)
	if err != nil {
		return nil
	}
	return k.PublicKey().Bytes()
}

var faultFlows = []faultFlow{
	{"authorize", func(fc *flowCtx) {
		var ni *types.NodeInformation
		fc.call = func() (err error) {
			ni, err = registration.AuthorizeNode(fc.srv.Ctx, fc.srv.Storage, fc.req, fc.srv.Opts()...)
			return
		}
		fc.verify = func(err error) {
			if err != nil {
				if ni != nil {
					fc.v("fail-closed", "result-with-error/authorize", "AuthorizeNode returned a record and an error")
				}
				return
			}
			st := loadInfo(fc.srv, fc.id.KeyId)
			if st == nil || !proto.Equal(st, ni) {
				fc.v("durable", "success-not-persisted/authorize", "AuthorizeNode succeeded but the stored record is absent or differs (stored=%v)", st != nil)
			}
		}
	}},
	{"fetch-node-led", func(fc *flowCtx) {
		if _, err := registration.AuthorizeNode(fc.srv.Ctx, fc.srv.Storage, fc.req, fc.srv.Opts()...); err != nil {
			fc.r.HarnessErr("setup authorize: %v", err)
		}
		fc.call = func() (err error) {
			fc.resp, err = registration.FetchNodeCredentials(fc.srv.Ctx, fc.srv.Storage, fc.req, fc.srv.Opts()...)
			return
		}
		fc.verify = fetchVerify(fc, "node-led", false)
	}},
	{"fetch-token", func(fc *flowCtx) {
		id, tok, err := registration.CreateServerLedActivationToken(fc.srv.Ctx, fc.srv.Storage, &types.ServerLedRegistrationRequest{}, fc.srv.Opts()...)
		if err != nil {
			fc.r.HarnessErr("setup token: %v", err)
		}
		fc.tokenID = id
		sp := HonestSpec(fc.id)
		sp.Nonce, _ = base58.FastBase58Decoding(strings.TrimPrefix(tok, nodeenrollment.ServerLedActivationTokenPrefix))
		fc.req, _ = BuildFetch(sp)
		fc.call = func() (err error) {
			fc.resp, err = registration.FetchNodeCredentials(fc.srv.Ctx, fc.srv.Storage, fc.req, fc.srv.Opts()...)
			return
		}
		fc.verify = fetchVerify(fc, "token", true)
	}},
	{"fetch-wrapper", func(fc *flowCtx) {
		fc.srv.RW = newAead(fc.r, "reg")
		sp := HonestSpec(fc.id)
		sp.Wrapped = WrapRegInfo(fc.r, fc.srv.RW, fc.id.Nonce, fc.id.Pkix, nil)
		fc.req, _ = BuildFetch(sp)
		fc.call = func() (err error) {
			fc.resp, err = registration.FetchNodeCredentials(fc.srv.Ctx, fc.srv.Storage, fc.req, fc.srv.Opts()...)
			return
		}
		fc.verify = fetchVerify(fc, "wrapper", false)
	}},
	{"fetch-rewrapped", func(fc *flowCtx) {
		sp := HonestSpec(fc.id)
		ri := &types.WrappingRegistrationFlowInfo{Nonce: fc.id.Nonce, CertificatePublicKeyPkix: fc.id.Pkix}
		b, err := nodeenrollment.EncryptMessage(contextBG, ri, fc.by.creds)
		if err != nil {
			fc.r.HarnessErr("rewrap: %v", err)
		}
		sp.Rewrapped, sp.RewrapKey = b, fc.by.id.KeyId
		fc.req, _ = BuildFetch(sp)
		fc.call = func() (err error) {
			fc.resp, err = registration.FetchNodeCredentials(fc.srv.Ctx, fc.srv.Storage, fc.req, fc.srv.Opts()...)
			return
		}
		fc.verify = fetchVerify(fc, "rewrapped", false)
	}},
	{"fetch-wrapper-again", func(fc *flowCtx) {
		// a second wrapper-flow fetch for a key that is already registered (honest retry after a lost response)
		fc.srv.RW = newAead(fc.r, "reg")
		sp := HonestSpec(fc.id)
		sp.Wrapped = WrapRegInfo(fc.r, fc.srv.RW, fc.id.Nonce, fc.id.Pkix, nil)
		fc.req, _ = BuildFetch(sp)
		if _, err := registration.FetchNodeCredentials(fc.srv.Ctx, fc.srv.Storage, fc.req, fc.srv.Opts()...); err != nil {
			fc.r.HarnessErr("setup first wrapper fetch: %v", err)
		}
		fc.call = func() (err error) {
			fc.resp, err = registration.FetchNodeCredentials(fc.srv.Ctx, fc.srv.Storage, fc.req, fc.srv.Opts()...)
			return
		}
		fc.verify = fetchVerify(fc, "wrapper-again", false)
	}},
	{"create-token", func(fc *flowCtx) {
		var id, tok string
		fc.call = func() (err error) {
			id, tok, err = registration.CreateServerLedActivationToken(fc.srv.Ctx, fc.srv.Storage, &types.ServerLedRegistrationRequest{}, fc.srv.Opts()...)
			return
		}
		fc.verify = func(err error) {
			if err != nil {
				if id != "" || tok != "" {
					fc.v("fail-closed", "result-with-error/create-token", "token handed out together with an error")
				}
				return
			}
			if !tokenPresent(fc.srv, id) {
				fc.v("durable", "success-not-persisted/create-token", "token %s handed out but not stored", id)
			}
		}
	}},
	{"rotate-roots-empty", func(fc *flowCtx) {
		fc.srv.Inner.Remove(contextBG, &types.RootCertificates{Id: nodeenrollment.RootsMessageId})
		rootsFlow(fc, false)
	}},
	{"rotate-roots-promote", func(fc *flowCtx) {
		fc.r.Sleep(8 * 24 * time.Hour)
		rootsFlow(fc, false)
	}},
	{"rotate-roots-noop", func(fc *flowCtx) { rootsFlow(fc, false) }},
	{"rotate-roots-reinit", func(fc *flowCtx) { rootsFlow(fc, true) }},
	{"rotate-node-key-id", func(fc *flowCtx) { rotateNodeFlow(fc, false) }},
	{"rotate-node-node-id", func(fc *flowCtx) { rotateNodeFlow(fc, true) }},
	{"rotate-node-replay", func(fc *flowCtx) {
		// an accepted rotation payload is replayed: it must stay refused whatever storage operation fails, and the record
		// it registered the first time must not change
		newID := NewIdent("new")
		inner, _ := BuildFetch(HonestSpec(newID))
		payload, err := nodeenrollment.EncryptMessage(contextBG, inner, fc.a.creds)
		if err != nil {
			fc.r.HarnessErr("encrypt: %v", err)
		}
		rr := &types.RotateNodeCredentialsRequest{CertificatePublicKeyPkix: fc.a.id.Pkix, EncryptedFetchNodeCredentialsRequest: payload}
		if _, err := rotation.RotateNodeCredentials(fc.srv.Ctx, fc.srv.Storage, rr, fc.srv.Opts()...); err != nil {
			fc.r.HarnessErr("setup rotation: %v", err)
		}
		before := simstore.Snapshot(contextBG, fc.srv.Inner, (*types.NodeInformation)(nil))
		var resp *types.RotateNodeCredentialsResponse
		fc.call = func() (err error) {
			resp, err = rotation.RotateNodeCredentials(fc.srv.Ctx, fc.srv.Storage, rr, fc.srv.Opts()...)
			return
		}
		fc.verify = func(err error) {
			after := simstore.Snapshot(contextBG, fc.srv.Inner, (*types.NodeInformation)(nil))
			if fc.lied {
				// storage itself claimed that a record is absent: the library cannot know that the key is registered, so a
				// replay may be processed like a first request; only durability is required then
				if err == nil && after[newID.KeyId] == nil {
					fc.v("durable", "success-not-persisted/rotate-node-replay", "rotation reported success but the record is not stored")
				}
				return
			}
			if !bytes.Equal(before[newID.KeyId], after[newID.KeyId]) || !bytes.Equal(before[fc.a.id.KeyId], after[fc.a.id.KeyId]) {
				fc.v("others-untouched", "existing-record-changed/rotate-node-replay", "a replayed rotation request changed an existing node record (err=%v)", err)
			}
			if err == nil && resp != nil {
				fc.v("fail-closed", "replay-honored-under-storage-fault", "a replayed rotation payload was honored")
			}
		}
	}},
	{"generate-server-certs", func(fc *flowCtx) {
		var resp *types.GenerateServerCertificatesResponse
		nonce := []byte("0123456789abcdef0123456789abcdef")
		req := &types.GenerateServerCertificatesRequest{CertificatePublicKeyPkix: fc.a.id.Pkix, Nonce: nonce, NonceSignature: ed25519.Sign(fc.a.id.Priv, nonce), NodeId: fc.a.nodeID}
		fc.call = func() (err error) {
			resp, err = nodetls.GenerateServerCertificates(fc.srv.Ctx, fc.srv.Storage, req, fc.srv.Opts()...)
			return
		}
		fc.verify = func(err error) {
			if err != nil && resp != nil {
				fc.v("fail-closed", "result-with-error/generate-server-certs", "certificates handed out together with an error")
			}
			if err == nil && loadInfo(fc.srv, fc.a.id.KeyId) == nil {
				fc.v("durable", "certificates-without-record", "server certificates minted although the node record is not in storage")
			}
		}
	}},
	{"node-new-credentials", func(fc *flowCtx) {
		fc.target = fc.node
		var c *types.NodeCredentials
		fc.call = func() (err error) {
			c, err = types.NewNodeCredentials(fc.node.Ctx, fc.node.Storage, fc.node.Opts()...)
			return
		}
		fc.verify = func(err error) {
			if err != nil {
				if c != nil {
					fc.v("fail-closed", "result-with-error/node-new-credentials", "credentials returned together with an error")
				}
				return
			}
			st, lerr := types.LoadNodeCredentials(contextBG, fc.node.Inner, nodeenrollment.CurrentId, fc.node.Opts()...)
			if lerr != nil || !proto.Equal(st, c) {
				fc.v("durable", "success-not-persisted/node-new-credentials", "NewNodeCredentials succeeded but stored credentials are absent or differ: %v", lerr)
			}
		}
	}},
	{"dial-enroll-server-storage", func(fc *flowCtx) { wireFlow(fc, false, false) }},
	{"dial-enroll-node-storage", func(fc *flowCtx) { wireFlow(fc, true, false) }},
	{"dial-token-server-storage", func(fc *flowCtx) { wireFlow(fc, false, true) }},
	{"node-handle-response-token", func(fc *flowCtx) {
		fc.target = fc.node
		_, tok, err := registration.CreateServerLedActivationToken(fc.srv.Ctx, fc.srv.Storage, &types.ServerLedRegistrationRequest{}, fc.srv.Opts()...)
		if err != nil {
			fc.r.HarnessErr("setup token: %v", err)
		}
		topt := nodeenrollment.WithActivationToken(tok)
		creds, err := types.NewNodeCredentials(fc.node.Ctx, fc.node.Storage, fc.node.Opts(topt)...)
		if err != nil {
			fc.r.HarnessErr("setup new creds: %v", err)
		}
		req, _ := creds.CreateFetchNodeCredentialsRequest(contextBG, topt)
		resp, err := registration.FetchNodeCredentials(fc.srv.Ctx, fc.srv.Storage, req, fc.srv.Opts()...)
		if err != nil {
			fc.r.HarnessErr("setup fetch: %v", err)
		}
		var out *types.NodeCredentials
		fc.call = func() (err error) {
			out, err = creds.HandleFetchNodeCredentialsResponse(fc.node.Ctx, fc.node.Storage, resp, fc.node.Opts(topt)...)
			return
		}
		fc.verify = func(err error) {
			if err != nil {
				return
			}
			st, lerr := types.LoadNodeCredentials(contextBG, fc.node.Inner, nodeenrollment.CurrentId, fc.node.Opts()...)
			if lerr != nil || !proto.Equal(st, out) || len(st.CertificateBundles) != 2 {
				fc.v("durable", "success-not-persisted/node-handle-response", "HandleFetchNodeCredentialsResponse succeeded but the stored credentials are absent, differ or lack certificates: %v", lerr)
			}
		}
	}},
	{"node-handle-response", func(fc *flowCtx) {
		fc.target = fc.node
		creds, err := types.NewNodeCredentials(fc.node.Ctx, fc.node.Storage, fc.node.Opts()...)
		if err != nil {
			fc.r.HarnessErr("setup new creds: %v", err)
		}
		req, _ := creds.CreateFetchNodeCredentialsRequest(contextBG)
		if _, err := registration.AuthorizeNode(fc.srv.Ctx, fc.srv.Storage, req, fc.srv.Opts()...); err != nil {
			fc.r.HarnessErr("setup authorize: %v", err)
		}
		resp, err := registration.FetchNodeCredentials(fc.srv.Ctx, fc.srv.Storage, req, fc.srv.Opts()...)
		if err != nil {
			fc.r.HarnessErr("setup fetch: %v", err)
		}
		var out *types.NodeCredentials
		fc.call = func() (err error) {
			out, err = creds.HandleFetchNodeCredentialsResponse(fc.node.Ctx, fc.node.Storage, resp, fc.node.Opts()...)
			return
		}
		fc.verify = func(err error) {
			if err != nil {
				if out != nil {
					fc.v("fail-closed", "result-with-error/node-handle-response", "credentials returned together with an error")
				}
				return
			}
			st, lerr := types.LoadNodeCredentials(contextBG, fc.node.Inner, nodeenrollment.CurrentId, fc.node.Opts()...)
			if lerr != nil || !proto.Equal(st, out) || len(st.CertificateBundles) != 2 {
				fc.v("durable", "success-not-persisted/node-handle-response", "HandleFetchNodeCredentialsResponse succeeded but the stored credentials are absent, differ or lack certificates: %v", lerr)
			}
		}
	}},
}

// wireFlow runs one protocol.Dial of a pending node against the real listener; the storage fault hits the server's
// storage (fetch + authentication handshakes) or the node's own storage (load, store of fetched credentials).
func wireFlow(fc *flowCtx, faultNode bool, token bool) {
	r := fc.r
	var dopts []nodeenrollment.Option
	var copts []nodeenrollment.Option
	if token {
		id, tok, err := registration.CreateServerLedActivationToken(fc.srv.Ctx, fc.srv.Storage, &types.ServerLedRegistrationRequest{}, fc.srv.Opts()...)
		if err != nil {
			r.HarnessErr("setup token: %v", err)
		}
		fc.tokenID = id
		dopts = append(dopts, nodeenrollment.WithActivationToken(tok))
		copts = dopts
	}
	c0, err := types.NewNodeCredentials(fc.node.Ctx, fc.node.Storage, fc.node.Opts(copts...)...)
	if err != nil {
		r.HarnessErr("setup node credentials: %v", err)
	}
	kid := keyID(c0.CertificatePublicKeyPkix)
	if !token {
		req, _ := c0.CreateFetchNodeCredentialsRequest(contextBG)
		if _, err := registration.AuthorizeNode(fc.srv.Ctx, fc.srv.Storage, req, fc.srv.Opts()...); err != nil {
			r.HarnessErr("setup authorize: %v", err)
		}
	}
	if faultNode {
		fc.target = fc.node
	}
	fc.noRetry = true
	w := NewWire(r, fc.srv, nil, fc.srv.Opts())
	w.StartAcceptor(fmt.Sprintf("acceptor%d", r.NextID()))
	w.Quiesce()
	var res *dialRes
	var acc []*acceptRes
	fc.call = func() error {
		res = w.DialHonest(fmt.Sprintf("dial%d", r.NextID()), fc.node, w.Addr, dopts...)
		w.Quiesce()
		acc = w.Take()
		if !res.done {
			r.Violate("fail-closed", "dial-stuck-under-storage-fault", "Dial did not return; parked=%v", r.Sched.ParkedAt())
		}
		return res.err
	}
	name := map[bool]string{false: "server-storage", true: "node-storage"}[faultNode]
	fc.verify = func(err error) {
		for _, a := range acc {
			if a.panicMsg != "" {
				fc.v("no-panic", "accept-panic-under-storage-fault/"+a.panicSite, "%s", a.panicMsg)
			}
			if a.err != nil && !a.temporary {
				fc.v("fail-closed", "listener-stopped-by-storage-fault", "a storage fault during a handshake produced a non-temporary Accept error: %v", a.err)
			}
		}
		stored, lerr := types.LoadNodeCredentials(contextBG, fc.node.Inner, nodeenrollment.CurrentId, fc.node.Opts()...)
		if lerr != nil {
			fc.v("durable", "node-credentials-lost/"+name, "after a dial under a storage fault the node's stored credentials cannot be loaded: %v", lerr)
		}
		if n := len(stored.CertificateBundles); n != 0 && n != 2 {
			fc.v("durable", "node-credentials-half-written/"+name, "node stores %d certificate chains", n)
		}
		if !bytes.Equal(stored.CertificatePublicKeyPkix, c0.CertificatePublicKeyPkix) {
			fc.v("durable", "node-key-changed/"+name, "the node's stored key changed")
		}
		rec := loadInfo(fc.srv, kid)
		if err == nil {
			if len(stored.CertificateBundles) != 2 {
				fc.v("durable", "dial-succeeded-without-stored-credentials/"+name, "Dial returned a connection but the node's credentials were not persisted")
			}
			if rec == nil {
				fc.v("durable", "dial-succeeded-without-node-record/"+name, "Dial returned a connection but the server stores no record for the node")
			}
		}
		if token && rec != nil && tokenPresent(fc.srv, fc.tokenID) {
			fc.v("token-consumed", "token-usable-after-record-created", "a node record was created through the token but the token is still stored")
		}
		for _, a := range acc {
			if a.raw != nil {
				a.raw.Close()
			}
		}
		if res != nil && res.conn != nil {
			res.conn.Close()
		}
		w.Ln.Close()
		w.Quiesce()
		w.Take()
	}
}

func rootsFlow(fc *flowCtx, reinit bool) {
	var got *types.RootCertificates
	fc.rootsPre, _ = types.LoadRootCertificates(contextBG, fc.srv.Inner, fc.srv.Opts()...)
	if p := fc.rootsPre; p != nil && p.Current != nil && p.Next != nil {
		now := time.Now()
		in := func(rc *types.RootCertificate) bool {
			return !now.Before(rc.NotBefore.AsTime()) && !now.After(rc.NotAfter.AsTime())
		}
		fc.rootsUsable = in(p.Current) || (now.After(p.Current.NotAfter.AsTime()) && in(p.Next))
	}
	opts := fc.srv.Opts()
	if reinit {
		opts = append(opts, nodeenrollment.WithReinitializeRoots(true))
	}
	fc.call = func() (err error) {
		got, err = rotation.RotateRootCertificates(fc.srv.Ctx, fc.srv.Storage, opts...)
		return
	}
	fc.verify = func(err error) {
		if err != nil {
			if got != nil {
				fc.v("fail-closed", "result-with-error/rotate-roots", "roots returned together with an error")
			}
			return
		}
		st, lerr := types.LoadRootCertificates(contextBG, fc.srv.Inner, fc.srv.Opts()...)
		if lerr != nil || !proto.Equal(st, got) {
			fc.v("durable", "success-not-persisted/rotate-roots", "RotateRootCertificates succeeded (reinit=%v) but the stored roots are absent or differ: %v", reinit, lerr)
		}
		if reinit && fc.rootsPre != nil && (bytes.Equal(st.Current.PublicKeyPkix, fc.rootsPre.Current.PublicKeyPkix) || bytes.Equal(st.Next.PublicKeyPkix, fc.rootsPre.Next.PublicKeyPkix)) {
			fc.v("durable", "reinit-kept-old-root", "reinitialization reported success but an old root is still stored")
		}
		if !reinit && fc.rootsPre != nil && !fc.lied && fc.rootsUsable {
			// a storage operation that FAILS is no reason to start over: with usable roots stored before the call, whatever
			// the call stores is their continuation (same current, or the previous next promoted). Only storage claiming
			// that there are no roots (the injected not-found) may lead to a fresh pair.
			if !bytes.Equal(st.Current.PublicKeyPkix, fc.rootsPre.Current.PublicKeyPkix) && !bytes.Equal(st.Current.PublicKeyPkix, fc.rootsPre.Next.PublicKeyPkix) {
				fc.v("fail-closed", "roots-replaced-because-a-storage-operation-failed", "usable roots were stored before the call; a storage operation failed and the call replaced both roots (trust reset) instead of failing")
			}
		}
	}
}

func rotateNodeFlow(fc *flowCtx, byNodeID bool) {
	newID := NewIdent("new")
	inner, _ := BuildFetch(HonestSpec(newID))
	payload, err := nodeenrollment.EncryptMessage(contextBG, inner, fc.a.creds)
	if err != nil {
		fc.r.HarnessErr("encrypt: %v", err)
	}
	rr := &types.RotateNodeCredentialsRequest{CertificatePublicKeyPkix: fc.a.id.Pkix, EncryptedFetchNodeCredentialsRequest: payload}
	if byNodeID {
		rr.NodeId = fc.a.nodeID
	}
	var resp *types.RotateNodeCredentialsResponse
	oldBefore := simstore.Snapshot(contextBG, fc.srv.Inner, (*types.NodeInformation)(nil))[fc.a.id.KeyId]
	fc.call = func() (err error) {
		resp, err = rotation.RotateNodeCredentials(fc.srv.Ctx, fc.srv.Storage, rr, fc.srv.Opts()...)
		return
	}
	fc.verify = func(err error) {
		snap := simstore.Snapshot(contextBG, fc.srv.Inner, (*types.NodeInformation)(nil))
		if !bytes.Equal(snap[fc.a.id.KeyId], oldBefore) {
			fc.v("others-untouched", "old-record-changed/rotate-node", "the rotating node's existing record changed")
		}
		if err != nil {
			if resp != nil {
				fc.v("fail-closed", "result-with-error/rotate-node", "reply returned together with an error")
			}
			return
		}
		if snap[newID.KeyId] == nil {
			fc.v("durable", "success-not-persisted/rotate-node", "RotateNodeCredentials succeeded but the new record is not stored")
		}
	}
}

// runFaultCase builds a fresh world for one flow/config and executes the call with the given faults armed
// (positions counted from the first storage operation of the call). Returns the number of storage operations the call made.
func runFaultCase(r *kernel.Run, fl faultFlow, backend string, sw bool, faults map[int]string) (int, string) {
	srv := NewWorld(r, "server", backend, sw, strings.HasSuffix(fl.name, "node-id") || fl.name == "generate-server-certs")
	node := NewWorld(r, "node", map[string]string{"inmem": "inmem", "file": "file", "storeonce": "inmem"}[backend], sw, false)
	// the application keeps state on the roots record (set once, at bootstrap)
	if _, err := rotation.RotateRootCertificates(srv.Ctx, srv.Storage, srv.Opts(nodeenrollment.WithState(mkStruct(r, 2)))...); err != nil {
		r.HarnessErr("setup roots: %v", err)
	}
	fc := &flowCtx{r: r, srv: srv, node: node, target: srv, id: NewIdent("subject")}
	fc.by = enroll(r, srv, NewIdent("bystander"), mkStruct(r, 2), "node-bystander")
	fc.a = enroll(r, srv, NewIdent("A"), mkStruct(r, 2), "node-A")
	fc.req, _ = BuildFetch(HonestSpec(fc.id))
	fl.build(fc)
	otherBefore := simstore.Snapshot(contextBG, srv.Inner, (*types.NodeInformation)(nil))[fc.by.id.KeyId]
	start := fc.target.St.NextSeq()
	for p, k := range faults {
		fc.target.St.ArmAt(p, k)
		if k == simstore.FaultNotFound {
			fc.lied = true
		}
	}
	var err error
	if p, msg, site := kernel.Guard(func() { err = fc.call() }); p {
		r.Violate("no-panic", "panic-under-storage-fault/"+fl.name, "%s panicked under storage faults %v: %s (%s)", fl.name, faults, msg, site)
	}
	n := fc.target.St.NextSeq() - start
	fc.target.St.ClearFaults()
	for _, k := range faults {
		if k == simstore.FaultCrash {
			// the process comes back: a file back end is re-opened over its directory, nothing else survives
			fc.target.Restart()
			break
		}
	}
	srv.NewCtx()
	node.NewCtx()
	fc.verify(err)
	if err != nil && !fc.noRetry && len(faults) > 0 {
		// the honest caller retries the same call once the fault is gone: the same oracle applies to the retry
		var err2 error
		if p, msg, site := kernel.Guard(func() { err2 = fc.call() }); p {
			r.Violate("no-panic", "panic-on-retry/"+fl.name, "%s panicked on the retry after storage faults %v: %s (%s)", fl.name, faults, msg, site)
		}
		r.Count("ops.retry_after_fault", 1)
		fc.verify(err2)
	}
	otherAfter := simstore.Snapshot(contextBG, srv.Inner, (*types.NodeInformation)(nil))[fc.by.id.KeyId]
	if !bytes.Equal(otherBefore, otherAfter) {
		r.Violate("others-untouched", "other-node-record-changed/"+fl.name, "another node's record changed during %s under faults %v", fl.name, faults)
	}
	return n, shortErr(err)
}

// the three error kinds of the property's quantifier, plus two that deployments meet: a write that was applied although
// the caller is told it failed (lost acknowledgement), and a crash (this and every later operation fails; the retry runs
// after a restart over whatever became durable), and a back end that times out on its own while the caller's context is live
var faultKinds = []string{simstore.FaultErr, simstore.FaultNotFound, simstore.FaultCancel, simstore.FaultLostAck, simstore.FaultCrash, simstore.FaultDeadline}

func c13Configs() (out [][3]any) {
	for fi := range faultFlows {
		for _, b := range backends {
			for _, sw := range []bool{false, true} {
				out = append(out, [3]any{fi, b, sw})
			}
		}
	}
	return
}

// C13: storage faults fail closed, and success implies durability.
func propC13(r *kernel.Run) {
	tp := r.Tape
	cfgs := c13Configs()
	if r.Index < len(cfgs) {
		// complete single-fault enumeration for this (flow, back end, wrapper) configuration
		c := cfgs[r.Index]
		fl, backend, sw := faultFlows[c[0].(int)], c[1].(string), c[2].(bool)
		n, _ := runFaultCase(r, fl, backend, sw, nil)
		r.Count("oracle.pilot_storage_ops", int64(n))
		if n == 0 {
			r.HarnessErr("flow %s made no storage operation in the pilot", fl.name)
		}
		var sample []string
		for p := 0; p < n; p++ {
			for _, k := range faultKinds {
				m, e := runFaultCase(r, fl, backend, sw, map[int]string{p: k})
				r.Count("cases", 1)
				r.Count("ops.flow."+fl.name, 1)
				r.FP(fl.name, backend, sw, p, k)
				r.StateFP(fl.name, p, k, e == "ok")
				if e == "ok" {
					r.Count("probe.fault_absorbed", 1)
				}
				sample = append(sample, fmt.Sprintf("fault %s at op %d/%d -> %d ops, %s", k, p, n, m, truncate(e, 60)))
			}
		}
		if r.Index%12 == 0 {
			r.SetSample(map[string]any{"flow": fl.name, "backend": backend, "storage_wrapper": sw, "pilot_ops": n, "cases": sample})
		}
		return
	}
	// sampled double faults
	c := cfgs[tp.Draw(len(cfgs))]
	fl, backend, sw := faultFlows[c[0].(int)], c[1].(string), c[2].(bool)
	n, _ := runFaultCase(r, fl, backend, sw, nil)
	if n < 2 {
		return
	}
	for i := 0; i < 4; i++ {
		p1 := tp.Draw(n)
		p2 := tp.Draw(n + 2)
		f := map[int]string{p1: faultKinds[tp.Draw(len(faultKinds))], p2: faultKinds[tp.Draw(len(faultKinds))]}
		_, e := runFaultCase(r, fl, backend, sw, f)
		r.Count("cases", 1)
		r.Count("ops.flow."+fl.name, 1)
		r.Count("fault.double", 1)
		r.FP(fl.name, backend, sw, p1, p2, f[p1], f[p2])
		r.StateFP(fl.name, "double", e == "ok")
	}
}

func truncate(s string, n int) string {
	if len(s) > n {
		return s[:n]
	}
	return s
}

func init() {
	register(&Prop{ID: "C13", Engine: propC13, MinRuns: len(c13Configs())})
}
