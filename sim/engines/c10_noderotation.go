//go:build verif

package engines

import (
	"bytes"
	"crypto/ecdh"
	"crypto/rand"
	"fmt"
	"time"

	wrapping "github.com/hashicorp/go-kms-wrapping/v2"
	"github.com/hashicorp/nodeenrollment"
	"github.com/hashicorp/nodeenrollment/registration"
	"github.com/hashicorp/nodeenrollment/rotation"
	"github.com/hashicorp/nodeenrollment/types"
	"google.golang.org/protobuf/proto"
	"google.golang.org/protobuf/types/known/structpb"

	"verifsim/kernel"
)

// nodeSide is an enrolled node as the harness sees it.
type nodeSide struct {
	id     *Ident
	creds  *types.NodeCredentials
	state  *structpb.Struct
	nodeID string
}

func (n *nodeSide) key() (string, []byte) {
	priv, err := ecdh.X25519().NewPrivateKey(n.creds.EncryptionPrivateKeyBytes)
	if err != nil {
		return "", nil
	}
	return keyID(n.creds.CertificatePublicKeyPkix), x25519Shared(priv, n.creds.ServerEncryptionPublicKeyBytes)
}

// enroll registers id with state and returns the enrolled node side.
func enroll(r *kernel.Run, w *World, id *Ident, st *structpb.Struct, nodeID string) *nodeSide {
	req, _ := BuildFetch(HonestSpec(id))
	opts := w.Opts()
	if st != nil {
		opts = append(opts, nodeenrollment.WithState(st))
	}
	ni, err := registration.AuthorizeNode(w.Ctx, w.Storage, req, opts...)
	if err != nil {
		r.HarnessErr("enroll authorize: %v", err)
	}
	if nodeID != "" {
		setNodeID(r, w, ni, nodeID)
	}
	resp, err := registration.FetchNodeCredentials(w.Ctx, w.Storage, req, w.Opts()...)
	if err != nil || len(resp.EncryptedNodeCredentials) == 0 {
		r.HarnessErr("enroll fetch: %v", err)
	}
	creds, err := id.Creds().HandleFetchNodeCredentialsResponse(w.Ctx, w.Storage, resp, nodeenrollment.WithSkipStorage(true))
	if err != nil {
		r.HarnessErr("enroll handle: %v", err)
	}
	return &nodeSide{id: id, creds: creds, state: st, nodeID: nodeID}
}

// setNodeID is what the application does after registration: it labels the record with its own node ID.
func setNodeID(r *kernel.Run, w *World, ni *types.NodeInformation, nodeID string) {
	ni = proto.Clone(ni).(*types.NodeInformation)
	ni.NodeId = nodeID
	if w.Backend == "storeonce" {
		if err := w.Inner.Remove(w.Ctx, &types.NodeInformation{Id: ni.Id}); err != nil {
			r.HarnessErr("remove for relabel: %v", err)
		}
	}
	if err := ni.Store(w.Ctx, w.Inner, w.Opts()...); err != nil {
		r.HarnessErr("relabel: %v", err)
	}
}

type recKeys struct {
	id            string
	curID, prevID string
	cur, prev     []byte
	state         *structpb.Struct
	raw           []byte
}

// loadRecKeys reads a stored record and derives its shared keys independently (crypto/ecdh).
func loadRecKeys(w *World, id string) *recKeys {
	ni, err := types.LoadNodeInformation(w.Ctx, w.Inner, id, w.Opts()...)
	if err != nil {
		return nil
	}
	rk := &recKeys{id: id, curID: keyID(ni.CertificatePublicKeyPkix), state: ni.State}
	if p, err := ecdh.X25519().NewPrivateKey(ni.ServerEncryptionPrivateKeyBytes); err == nil {
		rk.cur = x25519Shared(p, ni.EncryptionPublicKeyBytes)
	}
	if pk := ni.PreviousEncryptionKey; pk != nil {
		rk.prevID = pk.KeyId
		if p, err := ecdh.X25519().NewPrivateKey(pk.PrivateKeyPkcs8); err == nil {
			rk.prev = x25519Shared(p, pk.PublicKeyPkix)
		}
	}
	return rk
}

func (rk *recKeys) decrypts(kid string, shared []byte) (bool, bool) {
	if rk == nil || shared == nil {
		return false, false
	}
	if rk.curID == kid && bytes.Equal(rk.cur, shared) {
		return true, false
	}
	if rk.prev != nil && rk.prevID == kid && bytes.Equal(rk.prev, shared) {
		return true, true
	}
	return false, false
}

// C10: node credential rotation is authenticated by the existing shared key.
func propC10(r *kernel.Run) {
	tp := r.Tape
	backend := Pick2(tp, "inmem", "file", "storeonce")
	sw := tp.Draw(2) == 1
	loader := tp.Draw(2) == 1
	w := NewWorld(r, "server", backend, sw, loader)
	w.St.EmptyOnMiss = loader && tp.Draw(2) == 0 // a NodeIdLoader may answer an unknown node ID with an empty set instead of ErrNotFound
	if _, err := rotation.RotateRootCertificates(w.Ctx, w.Storage, w.Opts()...); err != nil {
		r.HarnessErr("bootstrap roots: %v", err)
	}
	nodeIDA, nodeIDB := "", ""
	if loader || tp.Draw(3) == 0 {
		nodeIDA, nodeIDB = "node-A", "node-B"
	}
	stA := mkStruct(r, 2)
	if tp.Draw(3) == 0 {
		stA = nil // a record without application state
	}
	a := enroll(r, w, NewIdent("A0"), stA, nodeIDA)
	b := enroll(r, w, NewIdent("B0"), mkStruct(r, 3), nodeIDB)
	chain := []*nodeSide{a}
	unrelated := &nodeSide{id: NewIdent("X")}
	{
		k, _ := ecdh.X25519().GenerateKey(rand.Reader)
		c := unrelated.id.Creds()
		c.ServerEncryptionPublicKeyBytes = k.PublicKey().Bytes()
		c.ServerEncryptionPublicKeyType = types.KEYTYPE_X25519
		unrelated.creds = c
	}
	type acceptedRec struct {
		payload  []byte
		req      *types.RotateNodeCredentialsRequest
		enc      *nodeSide
		newID    *Ident
		notAfter time.Time // end of the inner request's validity
	}
	var accepted []acceptedRec // requests honored earlier (for replay)
	var hist []string

	ncases := tp.Range(3, r.Deep(12, 36))
	for ci := 0; ci < ncases; ci++ {
		cur := chain[len(chain)-1]
		// who encrypts
		encClass := Pick2(tp, "current", "current", "current", "previous", "other-node", "unrelated")
		enc := cur
		switch encClass {
		case "previous":
			if len(chain) < 2 {
				encClass = "current"
			} else {
				enc = chain[len(chain)-2]
			}
		case "other-node":
			enc = b
		case "unrelated":
			enc = unrelated
		}
		// identification
		identClass := Pick2(tp, "key-current", "key-current", "key-encrypting", "key-other", "key-unknown", "node-id", "node-id", "node-id-other", "node-id-unknown")
		rr := &types.RotateNodeCredentialsRequest{}
		switch identClass {
		case "key-current":
			rr.CertificatePublicKeyPkix = cur.id.Pkix
		case "key-encrypting":
			rr.CertificatePublicKeyPkix = enc.id.Pkix
		case "key-other":
			rr.CertificatePublicKeyPkix = b.id.Pkix
		case "key-unknown":
			rr.CertificatePublicKeyPkix = NewIdent("unknown").Pkix
		case "node-id":
			rr.CertificatePublicKeyPkix = cur.id.Pkix
			rr.NodeId = "node-A"
		case "node-id-other":
			rr.CertificatePublicKeyPkix = cur.id.Pkix
			rr.NodeId = "node-B"
		case "node-id-unknown":
			rr.CertificatePublicKeyPkix = cur.id.Pkix
			rr.NodeId = "node-nobody"
		}
		// inner request
		newID := NewIdent(fmt.Sprintf("A%d", len(chain)))
		innerClass := Pick2(tp, "honest", "honest", "honest", "token-nonce", "bad-signature", "expired", "not-yet-valid", "key-already-registered", "near-expiry")
		// the server's configured tolerance for requests whose validity has just run out (absent: the library's default)
		naSkew, naSet := 5*time.Minute, false // the documented default
		if tp.Draw(3) == 0 {
			naSkew, naSet = []time.Duration{0, time.Second, 30 * time.Second, time.Hour}[tp.Draw(4)], true
			r.Count("cfg.configured_not_after_skew", 1)
		}
		nearExpiryInside := false
		sp := HonestSpec(newID)
		sp.PrevPkix = cur.id.Pkix
		switch innerClass {
		case "token-nonce":
			n := make([]byte, 32)
			rand.Read(n)
			sp.Nonce, _ = proto.Marshal(&types.ServerLedActivationTokenNonce{Nonce: n, HmacKeyBytes: n})
		case "expired":
			sp.NotBefore = time.Now().Add(-48 * time.Hour)
			sp.NotAfter = time.Now().Add(-24 * time.Hour)
		case "near-expiry":
			d := tp.DurLog(time.Millisecond, 2*time.Hour)
			if d == naSkew {
				d += time.Millisecond
			}
			sp.NotBefore = time.Now().Add(-24 * time.Hour)
			sp.NotAfter = time.Now().Add(-d)
			nearExpiryInside = d < naSkew
		case "not-yet-valid":
			sp.NotBefore = time.Now().Add(24 * time.Hour)
			sp.NotAfter = time.Now().Add(48 * time.Hour)
		case "key-already-registered":
			sp = HonestSpec(b.id)
		}
		if tp.Draw(4) == 0 {
			// the bundle's "key id derived from the public key" field is the node's to fill: naming another node's record
			// changes nothing (the ID of a record is derived from its key by the server)
			sp.Id = b.id.KeyId
			r.Count("fault.inner_request_names_other_record_id", 1)
		}
		inner, _ := BuildFetch(sp)
		if innerClass == "bad-signature" {
			inner.BundleSignature[tp.Draw(64)] ^= 0x40
		}
		payload, err := nodeenrollment.EncryptMessage(w.Ctx, inner, enc.creds)
		if err != nil {
			r.HarnessErr("encrypt rotation request: %v", err)
		}
		replay := false
		sentNotAfter := sp.NotAfter // end of validity of the inner request actually sent (a replay sends an earlier one)
		corrupt := "none"
		switch tp.Draw(8) {
		case 0:
			if len(accepted) > 0 {
				ac := accepted[tp.Draw(len(accepted))]
				payload = ac.payload
				rr = proto.Clone(ac.req).(*types.RotateNodeCredentialsRequest)
				enc, newID = ac.enc, ac.newID
				replay = true
				identClass, encClass, innerClass = "replayed", "replayed", "honest"
				sentNotAfter = ac.notAfter
				if d := time.Since(ac.notAfter); d > 0 {
					// the replayed request's validity has run out meanwhile: inside this call's tolerance or not
					innerClass, nearExpiryInside = "near-expiry", d <= naSkew // (the widened window is closed)
				}
			}
		case 1:
			payload = append([]byte(nil), payload...)
			i := tp.Draw(len(payload) * 8)
			payload[i/8] ^= 1 << (i % 8)
			corrupt = "bitflip"
		case 2:
			payload = payload[:tp.Draw(len(payload))]
			corrupt = "truncated"
			if len(payload) == 0 {
				payload = []byte{0x12, 0x00} // blob with an empty ciphertext field
				corrupt = "empty-ciphertext"
			}
		case 3:
			// a well-formed blob whose ciphertext is shorter than the AEAD nonce
			payload, _ = proto.Marshal(&wrapping.BlobInfo{Ciphertext: tp.Bytes(tp.Range(0, 11))})
			corrupt = "short-ciphertext"
		}
		if corrupt != "none" {
			r.Count("fault.wire."+corrupt, 1)
		}
		rr.EncryptedFetchNodeCredentialsRequest = payload

		// ---- reference model from the stored world
		w.St.NodeOrder = nil
		var scope []*recKeys
		if rr.NodeId != "" && loader {
			ids := []string{}
			for id := range countNodeInfos(w) {
				ni, err := types.LoadNodeInformation(w.Ctx, w.Inner, id, w.Opts()...)
				if err == nil && ni.NodeId == rr.NodeId {
					ids = append(ids, id)
				}
			}
			sortStrings(ids)
			perm := tp.Perm(len(ids))
			ordered := make([]string, len(ids))
			for i, p := range perm {
				ordered[i] = ids[p]
			}
			w.St.NodeOrder = func(in []string) []string { return ordered }
			for _, id := range ordered {
				scope = append(scope, loadRecKeys(w, id))
			}
		} else if rk := loadRecKeys(w, keyID(rr.CertificatePublicKeyPkix)); rk != nil {
			scope = []*recKeys{rk}
		}
		pkid, pshared := enc.key()
		var auth *recKeys
		viaPrev := false
		for _, rk := range scope {
			if ok, prev := rk.decrypts(pkid, pshared); ok {
				auth, viaPrev = rk, prev
				break
			}
		}
		// a replayed payload is judged like any other: it is refused because its new key is registered
		// (unless the operator has removed that record in the meantime, which the history may do)
		newKeyRegistered := countNodeInfos(w)[newID.KeyId] != nil
		if innerClass == "key-already-registered" {
			newKeyRegistered = true
		}
		innerValid := (innerClass == "honest" || innerClass == "key-already-registered" || (innerClass == "near-expiry" && nearExpiryInside)) && !newKeyRegistered
		expectHonor := auth != nil && innerValid && corrupt == "none"
		mayHonor := auth != nil && innerValid // a corrupted blob may still decrypt to the original message
		if replay && newKeyRegistered {
			r.Count("probe.replay_of_registered_key", 1)
		}

		before := countNodeInfos(w)
		var resp *types.RotateNodeCredentialsResponse
		ropts := w.Opts()
		if naSet {
			ropts = append(ropts, nodeenrollment.WithNotAfterClockSkew(naSkew))
		}
		if tp.Draw(4) == 0 {
			// the application's shared option list may carry a WithState of its own; the new record must still carry the
			// authenticating record's state (also when that state is absent)
			ropts = append(ropts, nodeenrollment.WithState(mkStruct(r, 3)))
			r.Count("cfg.caller_options_with_state", 1)
		}
		if p, msg, site := kernel.Guard(func() { resp, err = rotation.RotateNodeCredentials(w.Ctx, w.Storage, rr, ropts...) }); p {
			r.Violate("no-panic", "rotate-node-panic/"+site, "RotateNodeCredentials panicked (%s): %s", corrupt, msg)
		}
		after := countNodeInfos(w)
		honored := err == nil && resp != nil
		desc := fmt.Sprintf("enc=%s ident=%s inner=%s corrupt=%s replay=%v loader=%v scope=%d viaPrev=%v backend=%s wrapper=%v -> honored=%v err=%s", encClass, identClass, innerClass, corrupt, replay, loader, len(scope), viaPrev, backend, sw, honored, shortErr(err))
		hist = append(hist, desc)
		r.Tracef("case %d: %s", ci, desc)
		r.Count("cases", 1)
		r.Count("ops.rotate_node", 1)
		class := fmt.Sprintf("enc-%s/ident-%s/inner-%s", encClass, identClass, innerClass)
		if honored && !mayHonor {
			why := "inner-" + innerClass
			switch {
			case replay:
				why = "replay"
				if auth == nil {
					why = "replay-unauthenticated"
				}
			case auth == nil:
				why = "enc-" + encClass + "/ident-" + identClass
			}
			r.Violate("honor-only-authenticated", "honored-unauthenticated/"+why, "%s", desc)
		}
		if !honored {
			if !sameSnapshot(before, after) {
				r.Violate("refusal-registers-nothing", "records-changed-on-refusal", "%s", desc)
			}
			if expectHonor {
				r.Violate("honor-authenticated", "refused-authenticated", "an honest rotation was refused: %s", desc)
			}
		} else {
			r.Count("probe.honored", 1)
			if viaPrev {
				r.Count("probe.honored_via_previous_key", 1)
			}
			// old records unchanged, exactly one new record
			for id, bts := range before {
				if !bytes.Equal(after[id], bts) {
					r.Violate("old-record-unchanged", "old-record-changed", "record %s changed: %s", id, desc)
				}
			}
			if len(after) != len(before)+1 || after[newID.KeyId] == nil {
				r.Violate("new-record", "new-record-missing", "want exactly one new record for the new key: %s", desc)
			}
			nni, lerr := types.LoadNodeInformation(w.Ctx, w.Inner, newID.KeyId, w.Opts()...)
			if lerr != nil {
				r.Violate("new-record", "new-record-unloadable", "%v: %s", lerr, desc)
			}
			if !proto.Equal(nni.State, auth.state) {
				r.Violate("state-carried", "state-not-carried-over", "new record state %v, authenticating record state %v: %s", nni.State, auth.state, desc)
			}
			// the reply opens with the authenticating record's CURRENT shared key only
			fr := new(types.FetchNodeCredentialsResponse)
			if derr := nodeenrollment.DecryptMessage(w.Ctx, resp.EncryptedFetchNodeCredentialsResponse, keySrc{auth.curID, auth.cur}, fr); derr != nil {
				r.Violate("reply-key", "reply-not-under-current-key", "reply does not open with the authenticating record's current key: %v: %s", derr, desc)
			}
			others := []keySrc{}
			if auth.prev != nil {
				others = append(others, keySrc{auth.prevID, auth.prev})
			}
			bk, bs := b.key()
			others = append(others, keySrc{bk, bs})
			for _, o := range others {
				if bytes.Equal(o.shared, auth.cur) && o.id == auth.curID {
					continue
				}
				if nodeenrollment.DecryptMessage(w.Ctx, resp.EncryptedFetchNodeCredentialsResponse, o, new(types.FetchNodeCredentialsResponse)) == nil {
					r.Violate("reply-key", "reply-opens-with-other-key", "reply opens with key %s: %s", o.id, desc)
				}
			}
			// the credentials inside open only with the new key
			if !tryOpen(w, fr, newID.EncPriv, newID.Pkix) {
				r.Violate("inner-key", "credentials-not-for-new-key", "%s", desc)
			}
			for _, o := range []*Ident{cur.id, b.id} {
				if tryOpen(w, fr, o.EncPriv, newID.Pkix) || tryOpen(w, fr, o.EncPriv, o.Pkix) {
					r.Violate("inner-key", "credentials-open-with-old-key", "%s", desc)
				}
			}
			// node side completes; the application relabels the new record and (sometimes) records the previous key
			ncreds, herr := newID.Creds().HandleFetchNodeCredentialsResponse(w.Ctx, w.Storage, fr, nodeenrollment.WithSkipStorage(true))
			if herr != nil {
				r.Violate("inner-key", "node-cannot-handle-reply", "%v: %s", herr, desc)
			}
			ns := &nodeSide{id: newID, creds: ncreds, state: auth.state, nodeID: cur.nodeID}
			if tp.Draw(2) == 0 {
				oldNi, e1 := types.LoadNodeInformation(w.Ctx, w.Inner, auth.id, w.Opts()...)
				if e1 == nil {
					if e2 := nni.SetPreviousEncryptionKey(oldNi); e2 != nil {
						r.HarnessErr("SetPreviousEncryptionKey: %v", e2)
					}
					r.Count("ops.set_previous_key", 1)
				}
			}
			if cur.nodeID != "" {
				nni.NodeId = cur.nodeID
			}
			if tp.Draw(2) == 0 {
				// the application keeps its own data in State and updates it on the new record (e.g. a version counter),
				// so records of one node differ in state
				nni.State, _ = structpb.NewStruct(map[string]any{"generation": float64(len(chain)), "owner": cur.id.Name})
				r.Count("ops.app_updates_state", 1)
			}
			if w.Backend == "storeonce" {
				w.Inner.Remove(w.Ctx, &types.NodeInformation{Id: nni.Id})
			}
			if e := nni.Store(w.Ctx, w.Inner, w.Opts()...); e != nil {
				r.HarnessErr("app store: %v", e)
			}
			// the operator may retire the old record
			if tp.Draw(3) == 0 {
				w.Inner.Remove(w.Ctx, &types.NodeInformation{Id: cur.id.KeyId})
				r.Count("ops.retire_old_record", 1)
			}
			chain = append(chain, ns)
			accepted = append(accepted, acceptedRec{payload, rr, enc, newID, sentNotAfter})
		}
		r.FP(class, corrupt, honored, len(scope), viaPrev, loader)
		r.StateFP(class, honored, len(chain))
	}
	if r.Index%300 == 0 {
		if len(hist) > 8 {
			hist = hist[:8]
		}
		r.SetSample(map[string]any{"history": hist})
	}
}

func sortStrings(s []string) {
	for i := 1; i < len(s); i++ {
		for j := i; j > 0 && s[j] < s[j-1]; j-- {
			s[j], s[j-1] = s[j-1], s[j]
		}
	}
}

func init() {
	register(&Prop{ID: "C10", Engine: propC10})
}
