//go:build verif

package engines

import (
	"fmt"
	"strings"
	"time"

	"github.com/hashicorp/nodeenrollment"
	"github.com/hashicorp/nodeenrollment/registration"
	"github.com/hashicorp/nodeenrollment/rotation"
	"github.com/hashicorp/nodeenrollment/types"
	"github.com/mr-tron/base58"
	"google.golang.org/protobuf/proto"
	"google.golang.org/protobuf/types/known/timestamppb"

	"verifsim/kernel"
)

var skewChoices = []time.Duration{0, time.Nanosecond, time.Second, time.Minute, time.Hour, -time.Nanosecond, -time.Second, -time.Minute, -time.Hour}

// documented lifetime of a node-created fetch request (const.go: "default amount of time for a signed fetch request validity period")
const docFetchLifetime = 24 * time.Hour

// C03: requests are processed only if authentically signed and fresh.
func propC03(r *kernel.Run) {
	tp := r.Tape
	w := NewWorld(r, "server", backends[tp.Draw(3)], tp.Draw(2) == 1, false)
	if _, err := rotation.RotateRootCertificates(w.Ctx, w.Storage, w.Opts()...); err != nil {
		r.HarnessErr("bootstrap roots: %v", err)
	}
	ncases := tp.Range(10, r.Deep(40, 120))
	other := NewIdent("other")
	otherReq, _ := BuildFetch(HonestSpec(other))
	for ci := 0; ci < ncases; ci++ {
		id := NewIdent(fmt.Sprintf("n%d", ci))
		nbSkew := skewChoices[tp.Draw(len(skewChoices))]
		naSkew := skewChoices[tp.Draw(len(skewChoices))]
		if tp.Draw(3) == 0 {
			nbSkew, naSkew = 0, 0
		}
		w.NilOpt = tp.Draw(5) == 0
		opts := w.Opts(nodeenrollment.WithNotBeforeClockSkew(nbSkew), nodeenrollment.WithNotAfterClockSkew(naSkew))

		var req *types.FetchNodeCredentialsRequest
		var nb, na time.Time
		libMade := tp.Draw(3) == 0
		fieldsOK := true
		fieldCase := "complete"
		tokenReq := false
		lenient := false
		if libMade {
			// a request a node creates through the library, under the simulated clock
			created := time.Now()
			var err error
			req, err = id.Creds().CreateFetchNodeCredentialsRequest(w.Ctx)
			if err != nil {
				r.HarnessErr("create request: %v", err)
			}
			info := new(types.FetchNodeCredentialsInfo)
			if err := proto.Unmarshal(req.Bundle, info); err != nil {
				r.HarnessErr("unmarshal honest bundle: %v", err)
			}
			nb, na = info.NotBefore.AsTime(), info.NotAfter.AsTime()
			if !nb.Equal(created) || !na.Equal(created.Add(docFetchLifetime)) {
				r.Violate("fetch-lifetime", "honest-window-wrong", "node-created request valid [%v,%v], want creation %v + exactly %v", nb.UnixNano(), na.UnixNano(), created.UnixNano(), docFetchLifetime)
			}
			// place now: creation, +lifetime-1ns, +lifetime, +lifetime+1ns, far after
			switch tp.Draw(6) {
			case 0:
			case 1:
				r.Sleep(docFetchLifetime - time.Nanosecond)
			case 2:
				r.Sleep(docFetchLifetime)
			case 3:
				r.Sleep(docFetchLifetime + time.Nanosecond)
			case 4:
				r.Sleep(docFetchLifetime + tp.DurLog(time.Second, 1000*time.Hour))
			case 5:
				r.Sleep(tp.DurLog(time.Nanosecond, docFetchLifetime))
			}
		} else {
			// harness-built well-signed request with an arbitrary window around now
			now := time.Now()
			width := tp.DurLog(time.Nanosecond, 100*time.Hour)
			var off time.Duration
			farYears := ""
			switch tp.Draw(11) {
			case 9: // a window that contains now and reaches into years a 64-bit nanosecond count cannot express
				farYears = "contains-now"
			case 10: // a window entirely in such years
				farYears = "outside"
			case 0: // now well inside
				off = -width / 2
			case 1: // now == notBefore+skew-ish edge cases: window starts at now+d, d in {-1,0,1}ns relative to the skewed edge
				off = -nbSkew + time.Duration(tp.Draw(3)-1)
			case 2: // now at the skewed not-after edge
				off = -width - naSkew + time.Duration(tp.Draw(3)-1)
			case 3: // far in the future
				off = tp.DurLog(2*time.Hour, 1000*time.Hour)
			case 4: // far in the past
				off = -width - tp.DurLog(2*time.Hour, 1000*time.Hour)
			case 5: // unskewed edges
				off = time.Duration(tp.Draw(3) - 1)
			case 6:
				off = -width + time.Duration(tp.Draw(3)-1)
			default:
				off = -time.Duration(tp.Int63() % int64(width+1))
			}
			nb, na = now.Add(off), now.Add(off).Add(width)
			switch farYears {
			case "contains-now":
				if tp.Draw(2) == 0 {
					nb, na = now.Add(-time.Hour), time.Date(2300+tp.Draw(7000), 1, 1, 0, 0, 0, 0, time.UTC)
				} else {
					nb, na = time.Date(1+tp.Draw(1600), 1, 1, 0, 0, 0, 0, time.UTC), now.Add(time.Hour)
				}
			case "outside":
				if tp.Draw(2) == 0 {
					nb = time.Date(2270+tp.Draw(300), 1, 1, 0, 0, 0, 0, time.UTC)
					na = nb.AddDate(100+tp.Draw(400), 0, 0)
				} else {
					na = time.Date(1000+tp.Draw(670), 1, 1, 0, 0, 0, 0, time.UTC)
					nb = na.AddDate(-(1 + tp.Draw(400)), 0, 0)
				}
			}
			if farYears != "" {
				r.Count("cfg.window_in_far_years", 1)
			}
			sp := ReqSpec{Cert: id, EncPub: id.EncPub, Nonce: id.Nonce, NotBefore: nb, NotAfter: na}
			if tp.Draw(6) == 0 {
				// the request presents a live activation token: an invalid request must not get as far as looking the
				// token up, let alone consuming it
				_, tok, terr := registration.CreateServerLedActivationToken(w.Ctx, w.Storage, &types.ServerLedRegistrationRequest{}, w.Opts()...)
				if terr != nil {
					r.HarnessErr("create token: %v", terr)
				}
				sp.Nonce, _ = base58.FastBase58Decoding(strings.TrimPrefix(tok, nodeenrollment.ServerLedActivationTokenPrefix))
				tokenReq = true
				r.Count("cfg.request_presents_live_token", 1)
			}
			if tp.Draw(8) == 0 {
				fieldsOK = false
				switch tp.Draw(5) {
				case 4:
					// an X25519 key of the wrong length (a correctly signed request can carry anything here)
					sp.EncPub = append([]byte(nil), id.EncPub[:tp.Range(1, 31)]...)
					if tp.Draw(3) == 0 {
						sp.EncPub = append(append([]byte(nil), id.EncPub...), tp.Bytes(tp.Range(1, 33))...)
					}
					fieldCase = "encryption-key-of-wrong-length"
					// the statement asks for required fields "present with supported key types"; it says nothing about the key's
					// length, and the library refuses such a key only when it comes to use it. Judged for panics only.
					lenient = true
					fieldsOK = true
				case 3:
					fieldCase = "key-of-other-algorithm"
				case 0:
					sp.Nonce = nil
					fieldCase = "empty-nonce"
				case 1:
					sp.EncPub = nil
					fieldCase = "empty-encryption-key"
				case 2:
					fieldCase = "bad-key-type"
				}
			}
			var info *types.FetchNodeCredentialsInfo
			req, info = BuildFetch(sp)
			if fieldCase == "key-of-other-algorithm" {
				// labelled Ed25519, but the PKIX bytes are a well-formed key of another algorithm; the signature cannot verify
				info.CertificatePublicKeyPkix = foreignAlgorithmPkix(tp.Draw(2))
				b, _ := proto.Marshal(info)
				req.Bundle = b
				req.BundleSignature = tp.Bytes(64)
			}
			if fieldCase != "key-of-other-algorithm" && tp.Draw(6) == 0 {
				// the bundle fields meant for the library's own use are the node's to fill; they change nothing about what
				// makes a request valid
				info.Id = Pick2(tp, "some-other-record", id.KeyId, "x")
				info.WrappingRegistrationFlowInfo = &types.WrappingRegistrationFlowInfo{Nonce: info.Nonce, CertificatePublicKeyPkix: info.CertificatePublicKeyPkix}
				b, _ := proto.Marshal(info)
				req.Bundle = b
				req.BundleSignature = signWith(id, b)
				r.Count("cfg.library_internal_fields_filled_by_node", 1)
			}
			if fieldsOK && tp.Draw(12) == 0 {
				// timestamps a hand-written client can put into the bundle: absent, or with a nanosecond part outside
				// [0, 1e9). What counts is the instant the library's own conversion (AsTime) yields: the model window is
				// rebuilt from it, so an absent not-after (= 1970) must be refused like any other window in the past.
				which := tp.Draw(3)
				mal := func(t time.Time) *timestamppb.Timestamp {
					switch tp.Draw(3) {
					case 0:
						return nil
					case 1:
						return &timestamppb.Timestamp{Seconds: t.Unix(), Nanos: -1}
					}
					return &timestamppb.Timestamp{Seconds: t.Unix(), Nanos: 1_000_000_000 + int32(tp.Draw(1000))}
				}
				if which != 1 {
					info.NotBefore = mal(nb)
				}
				if which != 0 {
					info.NotAfter = mal(na)
				}
				nb, na = info.NotBefore.AsTime(), info.NotAfter.AsTime()
				b, _ := proto.Marshal(info)
				req.Bundle = b
				req.BundleSignature = signWith(id, b)
				fieldCase = "timestamps-absent-or-denormal"
				r.Count("cfg.timestamps_absent_or_denormal", 1)
			}
			if fieldCase == "bad-key-type" {
				switch tp.Draw(4) {
				case 0:
					info.CertificatePublicKeyType = types.KEYTYPE_X25519
				case 1:
					info.EncryptionPublicKeyType = types.KEYTYPE_ED25519
				case 2: // the type left out altogether
					info.EncryptionPublicKeyType = types.KEYTYPE_UNSPECIFIED
				default:
					info.CertificatePublicKeyType = types.KEYTYPE_UNSPECIFIED
				}
				b, _ := proto.Marshal(info)
				req.Bundle = b
				req.BundleSignature = signWith(id, b)
			}
		}

		// wire corruption
		corrupt := "none"
		pristine := req
		if tp.Draw(2) == 0 {
			req = proto.Clone(req).(*types.FetchNodeCredentialsRequest)
			switch tp.Draw(7) {
			case 0:
				i := tp.Draw(len(req.Bundle) * 8)
				req.Bundle[i/8] ^= 1 << (i % 8)
				corrupt = "bundle-bitflip"
			case 1:
				i := tp.Draw(len(req.BundleSignature) * 8)
				req.BundleSignature[i/8] ^= 1 << (i % 8)
				corrupt = "signature-bitflip"
			case 2:
				n := tp.Range(1, 8)
				at := tp.Draw(len(req.Bundle))
				changed := false
				for j := 0; j < n && at+j < len(req.Bundle); j++ {
					nbte := byte(tp.Draw(256))
					if req.Bundle[at+j] != nbte {
						changed = true
					}
					req.Bundle[at+j] = nbte
				}
				if !changed {
					req.Bundle[at] ^= 0x80
				}
				corrupt = "bundle-overwrite"
			case 3:
				req.Bundle = req.Bundle[:tp.Draw(len(req.Bundle))]
				corrupt = "bundle-truncated"
			case 4:
				req.BundleSignature = req.BundleSignature[:tp.Draw(len(req.BundleSignature))]
				corrupt = "signature-truncated"
			case 5:
				req.BundleSignature = otherReq.BundleSignature
				corrupt = "signature-swapped"
			case 6:
				n := tp.Range(1, 8)
				at := tp.Draw(len(req.BundleSignature))
				for j := 0; j < n && at+j < len(req.BundleSignature); j++ {
					req.BundleSignature[at+j] ^= byte(1 + tp.Draw(255))
				}
				corrupt = "signature-overwrite"
			}
			r.Count("fault.wire."+corrupt, 1)
		}

		if strings.HasPrefix(corrupt, "signature-") && tp.Draw(3) == 0 {
			// the untouched request was presented (and, if valid, processed) a moment ago: the same bundle arriving again
			// with a damaged signature is judged on its own
			kernel.Guard(func() { registration.FetchNodeCredentials(w.Ctx, w.Storage, pristine, opts...) })
			corrupt += "-after-genuine-presentation"
			r.Count("cfg.genuine_presentation_first", 1)
		}
		now := time.Now()
		lo, hi := nb.Add(nbSkew), na.Add(naSkew)
		inside := !now.Before(lo) && !now.After(hi)
		onEdge := now.Equal(lo) || now.Equal(hi)
		expectAccept := corrupt == "none" && fieldsOK && inside
		target := tp.Draw(2)
		if tokenReq {
			target = 1 // a token is presented to FetchNodeCredentials (AuthorizeNode is the operator's call for node-led requests)
		}
		before := len(w.St.Calls)
		var err error
		var resp *types.FetchNodeCredentialsResponse
		var ni *types.NodeInformation
		if p, msg, site := kernel.Guard(func() {
			if target == 0 {
				ni, err = registration.AuthorizeNode(w.Ctx, w.Storage, req, opts...)
			} else {
				resp, err = registration.FetchNodeCredentials(w.Ctx, w.Storage, req, opts...)
			}
		}); p {
			r.Violate("no-panic", "validate-panic/"+site, "request validation panicked (%s, %s): %s", corrupt, fieldCase, msg)
		}
		// "processed" = the request got as far as an authorization decision or a storage write: any Store/Remove, or a
		// lookup of the data such a decision rests on (node records, tokens). Reading the roots is not that.
		calls := 0
		for _, c := range w.St.Calls[before:] {
			if c.Kind == "store" || c.Kind == "remove" || c.Kind == "loadbynodeid" || c.Type == "NodeInformation" || c.Type == "ServerLedActivationToken" {
				calls++
			}
		}
		r.Count("cases", 1)
		tname := [...]string{"authorize", "fetch"}[target]
		r.Count("ops."+tname, 1)
		place := "inside"
		switch {
		case now.Before(lo):
			place = "before"
		case now.After(hi):
			place = "after"
		}
		if onEdge {
			place = "edge"
			r.Count("probe.on_boundary", 1)
		}
		desc := fmt.Sprintf("%s corrupt=%s fields=%s now-lo=%v hi-now=%v nbSkew=%v naSkew=%v libMade=%v", tname, corrupt, fieldCase, now.Sub(lo), hi.Sub(now), nbSkew, naSkew, libMade)
		processed := calls > 0
		switch {
		case lenient:
			r.Count("probe.wrong_length_key_"+map[bool]string{true: "refused", false: "processed"}[err != nil], 1)
		case !expectAccept && !(onEdge && corrupt == "none" && fieldsOK):
			if processed {
				r.Violate("reject-before-storage", "processed-invalid/"+rejectClass(corrupt, fieldCase, place), "an invalid request got as far as an authorization lookup or a storage write (%d such calls): %s", calls, desc)
			}
			if err == nil {
				r.Violate("reject-before-storage", "accepted-invalid/"+rejectClass(corrupt, fieldCase, place), "an invalid request was not refused (resp=%v ni=%v): %s", resp != nil, ni != nil, desc)
			}
		case expectAccept && !onEdge:
			if !processed {
				r.Violate("accept-valid", "refused-valid/"+place, "a valid, fresh request was refused before any lookup (err=%v): %s", shortErr(err), desc)
			}
			if target == 0 && err != nil {
				r.Violate("accept-valid", "authorize-failed", "AuthorizeNode on a valid fresh request of an unknown key failed: %v: %s", shortErr(err), desc)
			}
			if target == 1 && (err != nil || resp == nil) {
				r.Violate("accept-valid", "fetch-failed", "FetchNodeCredentials on a valid fresh request failed: %v: %s", shortErr(err), desc)
			}
		default:
			// exactly on a boundary: either adjacent behaviour is accepted (tie tolerance), but a refusal must still be clean
			if !processed && err == nil {
				r.Violate("reject-before-storage", "silent-refusal", "request neither processed nor refused: %s", desc)
			}
		}
		r.FP(tname, corrupt, fieldCase, place, nbSkew, naSkew, libMade)
		r.StateFP(tname, corrupt, fieldCase, place, expectAccept)
		if ci == 0 && r.Index%400 == 0 {
			r.SetSample(map[string]any{"case": desc, "expected_accept": expectAccept, "storage_calls": calls, "error": shortErr(err)})
		}
	}
}

func rejectClass(corrupt, fieldCase, place string) string {
	switch {
	case corrupt != "none":
		return corrupt
	case fieldCase != "complete":
		return fieldCase
	}
	return "window-" + place
}

func init() {
	register(&Prop{ID: "C03", Engine: propC03})
}
