//go:build verif

package engines

import (
	wrapping "github.com/hashicorp/go-kms-wrapping/v2"
	"bytes"
	"crypto/ecdh"
	"crypto/ed25519"
	"crypto/rand"
	"crypto/x509"
	"fmt"
	"time"

	"github.com/hashicorp/nodeenrollment"
	"github.com/hashicorp/nodeenrollment/registration"
	"github.com/hashicorp/nodeenrollment/rotation"
	nodetls "github.com/hashicorp/nodeenrollment/tls"
	"github.com/hashicorp/nodeenrollment/types"
	"google.golang.org/protobuf/proto"
	"google.golang.org/protobuf/types/known/structpb"

	"verifsim/kernel"
	"verifsim/simstore"
)

var c04Flows = []string{"operator", "token", "wrapper", "rewrapped"}

// checkIssuedLeaf verifies every clause the statement makes about an issued certificate.
func checkIssuedLeaf(r *kernel.Run, where string, b *types.CertificateBundle, root *types.RootCertificate, otherRoot *types.RootCertificate, nodePkix []byte) {
	leaf, err := x509.ParseCertificate(b.CertificateDer)
	if err != nil {
		r.Violate("leaf", "leaf-unparseable", "%s: %v", where, err)
	}
	if !bytes.Equal(b.CaCertificateDer, root.CertificateDer) {
		r.Violate("leaf", "bundle-ca-not-server-root", "%s: bundle CA is not the server's %s root", where, root.Id)
	}
	ca, _ := x509.ParseCertificate(root.CertificateDer)
	if leaf.IsCA {
		r.Violate("leaf", "leaf-is-ca", "%s: issued certificate is a CA", where)
	}
	if len(leaf.ExtKeyUsage) != 1 || leaf.ExtKeyUsage[0] != x509.ExtKeyUsageClientAuth {
		r.Violate("leaf", "leaf-wrong-eku", "%s: extended key usage %v, want exactly client authentication", where, leaf.ExtKeyUsage)
	}
	pk, _ := x509.MarshalPKIXPublicKey(leaf.PublicKey)
	if !bytes.Equal(pk, nodePkix) {
		r.Violate("leaf", "leaf-wrong-key", "%s: certificate is not for the node's certificate key", where)
	}
	kid := keyID(nodePkix)
	hasName := false
	for _, n := range leaf.DNSNames {
		if n == kid {
			hasName = true
		}
	}
	if leaf.Subject.CommonName != kid || !hasName {
		r.Violate("leaf", "leaf-wrong-name", "%s: certificate named %q / %v, want the node's key ID %q", where, leaf.Subject.CommonName, leaf.DNSNames, kid)
	}
	if leaf.NotBefore.Before(ca.NotBefore) || leaf.NotAfter.After(ca.NotAfter) {
		r.Violate("leaf", "leaf-outlives-root", "%s: certificate valid [%v,%v] exceeds its issuing root [%v,%v]", where, leaf.NotBefore, leaf.NotAfter, ca.NotBefore, ca.NotAfter)
	}
	if err := leaf.CheckSignatureFrom(ca); err != nil {
		r.Violate("leaf", "leaf-not-signed-by-root", "%s: %v", where, err)
	}
	if otherRoot != nil {
		oca, _ := x509.ParseCertificate(otherRoot.CertificateDer)
		if leaf.CheckSignatureFrom(oca) == nil {
			r.Violate("leaf", "leaf-verifies-against-other-root", "%s", where)
		}
	}
}

// C04: honest enrollment always completes with correctly bound credentials.
type c04Skip struct{}

func propC04(r *kernel.Run) {
	tp := r.Tape
	defer func() {
		if p := recover(); p != nil {
			if _, ok := p.(c04Skip); ok {
				return // a configuration in which no liveness is expected ended early (counted as a probe)
			}
			panic(p)
		}
	}()
	// the first 4*3*2*2 runs cover every cell of flow x back end x server wrapper x node wrapper; later runs draw cells from the tape
	cell := r.Index
	if cell >= 48 {
		cell = tp.Draw(48)
	}
	flow := c04Flows[cell%4]
	backend := backends[(cell/4)%3]
	srvSW := (cell/12)%2 == 1
	nodeSW := (cell/24)%2 == 1
	srv := NewWorld(r, "server", backend, srvSW, false)
	nodeW := NewWorld(r, "node", Pick2(tp, "inmem", "file"), nodeSW, false)
	if _, err := rotation.RotateRootCertificates(srv.Ctx, srv.Storage, srv.Opts()...); err != nil {
		r.HarnessErr("roots: %v", err)
	}
	switch tp.Draw(4) {
	case 0, 1:
		r.Sleep(tp.DurLog(time.Hour, 13*24*time.Hour))
		if _, err := rotation.RotateRootCertificates(srv.Ctx, srv.Storage, srv.Opts()...); err != nil {
			r.HarnessErr("roots 2: %v", err)
		}
	case 2:
		// shortly before the next root becomes valid: the enrollment below may straddle a promotion
		if r0, err := types.LoadRootCertificates(contextBG, srv.Inner, srv.Opts()...); err == nil {
			if d := time.Until(r0.Next.NotBefore.AsTime()) - tp.DurLog(time.Nanosecond, 20*time.Hour); d > 0 {
				r.Sleep(d)
			}
		}
	}
	var regW wrapping.Wrapper = newAead(r, "registration")
	if tp.Draw(3) == 0 {
		// a KMS-backed wrapper: it envelope-encrypts (the sealed blob carries a wrapped data key besides the ciphertext)
		regW = wrapping.NewTestEnvelopeWrapper(tp.Bytes(32))
		r.Count("cfg.registration_wrapper_envelope_kind", 1)
	}
	stKind := tp.Draw(4)
	var state, params *structpb.Struct
	state = mkStruct(r, stKind)
	params = mkStruct(r, tp.Draw(4))
	if tp.Draw(6) == 0 {
		// applications put what they like into state and params: kilobytes of it
		params = bigStruct(r, []int{3000, 5000, 9000, 24000, 70000}[tp.Draw(5)])
		r.Count("cfg.large_application_params", 1)
	}
	if tp.Draw(8) == 0 {
		state = bigStruct(r, []int{5000, 24000, 70000}[tp.Draw(3)])
		r.Count("cfg.large_application_state", 1)
	}
	desc := fmt.Sprintf("flow=%s backend=%s serverWrapper=%v nodeWrapper=%v stateKind=%d", flow, backend, srvSW, nodeSW, stKind)
	r.Count("cfg.flow."+flow, 1)
	r.Count("cfg.backend."+backend, 1)
	// server-side fault: the application's random source short-reads. The server may refuse to work with it (it does);
	// whatever it does hand out must not rest on a degenerate key
	weakRand := r.Index >= 48 && tp.Draw(12) == 0 // (not in the runs that enumerate the cells)
	var weakOpt []nodeenrollment.Option
	if weakRand {
		weakOpt = append(weakOpt, nodeenrollment.WithRandomReader(&shortReader{max: tp.Range(1, 31)}))
		r.Count("fault.short_reads_from_random_source", 1)
	}
	fail := func(oracle, sig, format string, a ...any) {
		if weakRand && (oracle == "enroll" || oracle == "honest-enrollment-completes") {
			r.Count("probe.refused_to_work_with_short_reading_random_source", 1)
			panic(c04Skip{})
		}
		r.Violate(oracle, sig, desc+": "+format, a...)
	}

	// intermediate for the re-wrapped flow
	var interCreds *types.NodeCredentials
	if flow == "rewrapped" {
		interCreds = enroll(r, srv, NewIdent("intermediate"), nil, "").creds
	}
	var nodeOpts []nodeenrollment.Option
	token := ""
	if flow == "token" {
		var err error
		topts := srv.Opts()
		if state != nil {
			topts = append(topts, nodeenrollment.WithState(state))
		}
		_, token, err = registration.CreateServerLedActivationToken(srv.Ctx, srv.Storage, &types.ServerLedRegistrationRequest{}, topts...)
		if err != nil {
			fail("enroll", "token-create-failed", "%v", err)
		}
		nodeOpts = append(nodeOpts, nodeenrollment.WithActivationToken(token))
	}
	createOpts := nodeOpts
	if flow == "token" && tp.Draw(2) == 0 {
		// the token may also be supplied only when fetching (credentials created earlier with their own nonce), as protocol.Dial does
		createOpts = nil
		r.Count("cfg.token_supplied_at_fetch_only", 1)
	}
	if (flow == "wrapper" || flow == "rewrapped") && tp.Draw(4) == 0 {
		// the node's credentials were made for an activation token which is of no use any more (issued by a deployment
		// that is gone); the node holds the registration wrapper and enrolls through it
		old := NewWorld(r, "former-server", "inmem", false, false)
		if _, oldTok, err := registration.CreateServerLedActivationToken(old.Ctx, old.Storage, &types.ServerLedRegistrationRequest{}); err == nil {
			createOpts = append(createOpts, nodeenrollment.WithActivationToken(oldTok))
			r.Count("cfg.wrapper_flow_with_token_derived_nonce", 1)
		} else {
			r.HarnessErr("former server's token: %v", err)
		}
	}
	creds, err := types.NewNodeCredentials(nodeW.Ctx, nodeW.Storage, nodeW.Opts(createOpts...)...)
	if err != nil {
		fail("enroll", "new-credentials-failed", "%v", err)
	}
	reqOpts := nodeW.Opts(nodeOpts...)
	if flow == "wrapper" || flow == "rewrapped" {
		reqOpts = append(reqOpts, nodeenrollment.WithRegistrationWrapper(regW), nodeenrollment.WithWrappingRegistrationFlowApplicationSpecificParams(params))
	}
	req, err := creds.CreateFetchNodeCredentialsRequest(nodeW.Ctx, reqOpts...)
	if err != nil {
		fail("enroll", "create-request-failed", "%v", err)
	}
	reqInfo := new(types.FetchNodeCredentialsInfo)
	proto.Unmarshal(req.Bundle, reqInfo)
	nodeEncPriv, _ := ecdh.X25519().NewPrivateKey(creds.EncryptionPrivateKeyBytes)
	nodePkix := creds.CertificatePublicKeyPkix
	kid := keyID(nodePkix)

	fetchOpts := srv.Opts(weakOpt...)
	switch flow {
	case "operator":
		aopts := srv.Opts(weakOpt...)
		if state != nil {
			aopts = append(aopts, nodeenrollment.WithState(state))
		}
		if _, err := registration.AuthorizeNode(srv.Ctx, srv.Storage, req, aopts...); err != nil {
			fail("enroll", "authorize-failed", "%v", err)
		}
	case "wrapper":
		srv.RW = regW
		fetchOpts = srv.Opts(weakOpt...)
		if state != nil {
			fetchOpts = append(fetchOpts, nodeenrollment.WithState(state))
		}
	case "rewrapped":
		// the intermediate hop holds the registration wrapper, unseals and re-seals under its own node credentials
		ri, err := registration.DecryptWrappedRegistrationInfo(srv.Ctx, reqInfo, nodeenrollment.WithRegistrationWrapper(regW))
		if err != nil {
			fail("enroll", "intermediate-unwrap-failed", "%v", err)
		}
		b, err := nodeenrollment.EncryptMessage(srv.Ctx, ri, interCreds)
		if err != nil {
			fail("enroll", "intermediate-rewrap-failed", "%v", err)
		}
		req.RewrappedWrappingRegistrationFlowInfo = b
		req.RewrappingKeyId = keyID(interCreds.CertificatePublicKeyPkix)
		if tp.Draw(2) == 0 {
			// the server may have a registration wrapper of its own (another KMS than the edge's)
			srv.RW = newAead(r, "server-own-registration-wrapper")
			fetchOpts = srv.Opts(weakOpt...)
			r.Count("cfg.rewrapped_with_server_own_registration_wrapper", 1)
		}
		if state != nil {
			fetchOpts = append(fetchOpts, nodeenrollment.WithState(state))
		}
	}
	// the roots as they were when the operator authorized the node: in that flow the node's record (and with it the two
	// chains) is made then; in the other flows it is made by the fetch itself
	rootsAtAuth, _ := types.LoadRootCertificates(contextBG, srv.Inner, srv.Opts()...)
	// clock moves between authorization and fetch, inside the request's validity
	if tp.Draw(2) == 0 {
		r.Sleep(tp.DurLog(time.Nanosecond, 23*time.Hour))
		if tp.Draw(2) == 0 {
			// the server's periodic root rotation runs in between (and promotes the next root if it is due)
			if _, err := rotation.RotateRootCertificates(srv.Ctx, srv.Storage, srv.Opts()...); err != nil {
				r.HarnessErr("roots between authorization and fetch: %v", err)
			}
			r.Count("ops.root_rotation_between_authorization_and_fetch", 1)
		}
	}
	// the network may lose responses: the honest node retries with the same stored key
	lost := tp.Draw(3)
	if flow == "token" {
		lost = 0 // a token is single-use by design: a lost response cannot be retried
	}
	if flow != "token" && !weakRand && tp.Draw(5) == 0 {
		// a passing storage trouble (one operation fails) during the node's first fetch: that attempt may fail, and once
		// storage is well again the honest node fetches again and is served like after any lost response
		srv.St.ArmAt(tp.Draw(6), Pick2(tp, simstore.FaultErr, simstore.FaultDeadline, simstore.FaultLostAck))
		_, ferr := registration.FetchNodeCredentials(srv.Ctx, srv.Storage, req, fetchOpts...)
		srv.St.ClearFaults()
		if ferr != nil {
			r.Count("fault.fetch_failed_under_passing_storage_error", 1)
		}
	}
	var resp *types.FetchNodeCredentialsResponse
	for try := 0; try <= lost; try++ {
		resp, err = registration.FetchNodeCredentials(srv.Ctx, srv.Storage, req, fetchOpts...)
		if err != nil || resp == nil || len(resp.EncryptedNodeCredentials) == 0 {
			fail("honest-enrollment-completes", "fetch-failed/"+[...]string{"first-attempt", "retry"}[minInt(try, 1)], "attempt %d of the honest fetch failed: %v", try+1, shortErr(err))
		}
		if try < lost {
			r.Count("fault.lost_response", 1)
		}
	}

	// ---- the response
	roots, err := types.LoadRootCertificates(contextBG, srv.Inner, srv.Opts()...)
	if err != nil {
		r.HarnessErr("load roots: %v", err)
	}
	if !tryOpen(srv, resp, nodeEncPriv, nodePkix) {
		fail("response-bound", "response-not-openable-by-node", "")
	}
	stranger, _ := ecdh.X25519().GenerateKey(rand.Reader)
	for _, k := range []*ecdh.PrivateKey{stranger} {
		if tryOpen(srv, resp, k, nodePkix) {
			fail("response-bound", "response-opens-with-other-key", "")
		}
	}
	rootPub, _ := x509.ParsePKIXPublicKey(roots.Current.PublicKeyPkix)
	if !ed25519.Verify(rootPub.(ed25519.PublicKey), resp.EncryptedNodeCredentials, resp.EncryptedNodeCredentialsSignature) {
		fail("response-signed", "response-not-signed-by-current-root", "")
	}
	inner := new(types.NodeCredentials)
	shared := x25519Shared(nodeEncPriv, resp.ServerEncryptionPublicKeyBytes)
	if err := nodeenrollment.DecryptMessage(contextBG, resp.EncryptedNodeCredentials, keySrc{kid, shared}, inner); err != nil {
		fail("response-bound", "response-not-openable-by-node", "%v", err)
	}
	if !bytes.Equal(inner.RegistrationNonce, reqInfo.Nonce) {
		fail("response-bound", "response-nonce-differs", "response echoes a different nonce")
	}
	if len(inner.CertificateBundles) != 2 {
		fail("chains", "wrong-number-of-chains", "got %d certificate chains, want one per server root (2)", len(inner.CertificateBundles))
	}
	chainRoots := roots
	if flow == "operator" && rootsAtAuth != nil {
		chainRoots = rootsAtAuth
		if !bytes.Equal(rootsAtAuth.Current.PublicKeyPkix, roots.Current.PublicKeyPkix) {
			r.Count("probe.roots_promoted_between_authorization_and_fetch", 1)
		}
	}
	checkIssuedLeaf(r, desc+" current chain", inner.CertificateBundles[0], chainRoots.Current, chainRoots.Next, nodePkix)
	checkIssuedLeaf(r, desc+" next chain", inner.CertificateBundles[1], chainRoots.Next, chainRoots.Current, nodePkix)

	// ---- the stored server record equals what the response was built from
	rec, err := types.LoadNodeInformation(contextBG, srv.Inner, kid, srv.Opts()...)
	if err != nil {
		fail("record", "record-missing", "%v", err)
	}
	if !bytes.Equal(rec.RegistrationNonce, reqInfo.Nonce) || !bytes.Equal(rec.CertificatePublicKeyPkix, nodePkix) || !bytes.Equal(rec.EncryptionPublicKeyBytes, reqInfo.EncryptionPublicKeyBytes) {
		fail("record", "record-differs-from-request", "")
	}
	if len(rec.CertificateBundles) != 2 || !proto.Equal(rec.CertificateBundles[0], inner.CertificateBundles[0]) || !proto.Equal(rec.CertificateBundles[1], inner.CertificateBundles[1]) {
		fail("record", "record-chains-differ-from-response", "")
	}
	if k := rec.ServerEncryptionPrivateKeyBytes; len(k) >= 16 && bytes.Equal(k[len(k)-16:], make([]byte, 16)) {
		r.Violate("response-bound", "server-key-degenerate", "%s: the server's encryption private key for this node is %x - not 32 bytes from the random source, so others can open the response", desc, k)
	}
	if !bytes.Equal(x25519PubOf(rec.ServerEncryptionPrivateKeyBytes), resp.ServerEncryptionPublicKeyBytes) {
		fail("record", "record-server-key-differs-from-response", "")
	}
	if !proto.Equal(rec.State, state) && !(state == nil && rec.State == nil) {
		fail("record", "record-state-differs", "stored state %v, supplied %v", rec.State, state)
	}
	if flow == "wrapper" || flow == "rewrapped" {
		if rec.WrappingRegistrationFlowInfo == nil || !proto.Equal(rec.WrappingRegistrationFlowInfo.ApplicationSpecificParams, params) {
			if !(params == nil && rec.WrappingRegistrationFlowInfo != nil && rec.WrappingRegistrationFlowInfo.ApplicationSpecificParams == nil) {
				fail("record", "record-params-differ", "application specific params not carried into the record")
			}
		}
	}

	// ---- node side: substituted responses are refused, the genuine one is accepted
	nodeBefore := simstore.Snapshot(contextBG, nodeW.Inner, (*types.NodeCredentials)(nil))
	var reuse *types.NodeCredentials
	subs := tp.Draw(5)
	if subs > 0 {
		bad := proto.Clone(resp).(*types.FetchNodeCredentialsResponse)
		what := ""
		switch subs {
		case 1: // another node's (perfectly valid) response
			o := NewIdent("someone-else")
			oreq, _ := BuildFetch(HonestSpec(o))
			registration.AuthorizeNode(srv.Ctx, srv.Storage, oreq, srv.Opts()...)
			bad, _ = registration.FetchNodeCredentials(srv.Ctx, srv.Storage, oreq, srv.Opts()...)
			what = "another-nodes-response"
		case 2: // re-encrypted to a different key
			k, _ := ecdh.X25519().GenerateKey(rand.Reader)
			srvPriv, _ := ecdhKey(rec.ServerEncryptionPrivateKeyBytes)
			ct, _ := nodeenrollment.EncryptMessage(contextBG, inner, keySrc{kid, x25519Shared(srvPriv, k.PublicKey().Bytes())})
			bad.EncryptedNodeCredentials = ct
			what = "re-encrypted-to-other-key"
		case 3: // correctly encrypted, but a different nonce inside
			in2 := proto.Clone(inner).(*types.NodeCredentials)
			in2.RegistrationNonce = append([]byte(nil), in2.RegistrationNonce...)
			what = "different-nonce-inside"
			switch n := in2.RegistrationNonce; tp.Draw(5) {
			case 0:
				n[0] ^= 1
			case 1:
				n[len(n)-1] ^= 0x80
			case 2: // nothing echoed
				in2.RegistrationNonce = nil
				what = "different-nonce-inside/empty"
			case 3: // a proper prefix of the nonce
				in2.RegistrationNonce = n[:tp.Range(1, len(n)-1)]
				what = "different-nonce-inside/prefix"
			case 4: // the nonce followed by more bytes
				in2.RegistrationNonce = append(n, tp.Bytes(tp.Range(1, 8))...)
				what = "different-nonce-inside/extended"
			}
			ct, _ := nodeenrollment.EncryptMessage(contextBG, in2, keySrc{kid, shared})
			bad.EncryptedNodeCredentials = ct
		case 4: // server public key swapped
			k, _ := ecdh.X25519().GenerateKey(rand.Reader)
			bad.ServerEncryptionPublicKeyBytes = k.PublicKey().Bytes()
			what = "server-public-key-swapped"
		}
		r.Count("fault.substituted_response."+what, 1)
		if bad != nil {
			c2, lerr := types.LoadNodeCredentials(contextBG, nodeW.Storage, nodeenrollment.CurrentId, nodeW.Opts()...)
			if lerr != nil {
				fail("node", "node-credentials-unloadable", "%v", lerr)
			}
			var herr error
			if p, msg, site := kernel.Guard(func() {
				hopts := nodeW.Opts(nodeOpts...)
				if tp.Draw(4) == 0 {
					// the application persists the credentials itself: the response is judged all the same
					hopts = append(hopts, nodeenrollment.WithSkipStorage(true))
					what += "+skip-storage"
				}
				_, herr = c2.HandleFetchNodeCredentialsResponse(nodeW.Ctx, nodeW.Storage, bad, hopts...)
				reuse = c2
			}); p {
				fail("no-panic", "node-handle-panic/"+site, "%s", msg)
			}
			if herr == nil {
				fail("node-refuses", "substituted-response-accepted/"+what, "node accepted a response that is %s", what)
			}
			if !sameSnapshot(nodeBefore, simstore.Snapshot(contextBG, nodeW.Inner, (*types.NodeCredentials)(nil))) {
				fail("node-refuses", "node-storage-changed-on-refusal", "node storage changed although the response (%s) was refused", what)
			}
		}
	}
	c3, lerr := types.LoadNodeCredentials(contextBG, nodeW.Storage, nodeenrollment.CurrentId, nodeW.Opts()...)
	if lerr != nil {
		fail("node", "node-credentials-unloadable", "%v", lerr)
	}
	if reuse != nil && tp.Draw(2) == 0 {
		// the application keeps working with the credentials object that has just refused the substituted response
		c3 = reuse
		r.Count("cfg.same_credentials_object_after_refusal", 1)
	}
	final, err := c3.HandleFetchNodeCredentialsResponse(nodeW.Ctx, nodeW.Storage, resp, nodeW.Opts(nodeOpts...)...)
	if err != nil {
		fail("honest-enrollment-completes", "node-refused-genuine-response", "%v", err)
	}
	storedCreds, err := types.LoadNodeCredentials(contextBG, nodeW.Inner, nodeenrollment.CurrentId, nodeW.Opts()...)
	if err != nil || !proto.Equal(storedCreds, final) || len(storedCreds.CertificateBundles) != 2 {
		fail("node", "node-credentials-not-stored", "stored node credentials absent, different or without chains: %v", err)
	}
	cfgs, err := nodetls.ClientConfigs(contextBG, storedCreds)
	if err != nil || len(cfgs) == 0 {
		fail("node", "no-client-tls-config", "stored credentials yield no client TLS configuration: %v", err)
	}
	r.Count("cases", 1)
	r.FP(flow, backend, srvSW, nodeSW, stKind, lost, subs)
	r.StateFP(flow, backend, srvSW, nodeSW)
	if r.Index%100 == 0 {
		r.SetSample(map[string]any{"cell": desc, "lost_responses": lost, "substitution": subs})
	}
}

func minInt(a, b int) int {
	if a < b {
		return a
	}
	return b
}

func init() {
	register(&Prop{ID: "C04", Engine: propC04, MinRuns: 48})
}
