//go:build verif

package engines

import (
	"bytes"
	"crypto/rand"
	"crypto/tls"
	"crypto/x509"
	"errors"
	"fmt"
	"net"
	"sort"
	"strings"

	"github.com/hashicorp/nodeenrollment"
	"github.com/hashicorp/nodeenrollment/registration"
	"github.com/hashicorp/nodeenrollment/rotation"
	"github.com/hashicorp/nodeenrollment/types"
	"google.golang.org/protobuf/encoding/protojson"
	"google.golang.org/protobuf/proto"
	"google.golang.org/protobuf/types/known/structpb"

	"verifsim/kernel"
	"verifsim/simnet"
)

type c15Client struct {
	kind     string
	idx      int
	marker   string
	extras   []string
	cstate   *structpb.Struct // client state sent when dialing
	recState *structpb.Struct // state the operator/token attaches to the node record
	// network fault private to this client: its dropConn-th connection (0-based) is reset at the dropK-th write of one side
	drop     bool
	dropConn int
	dropSide int
	dropK    int
	twinOf   int // kind same-key-other-request: index of the client whose certificate key this one also uses
}

type c15Plan struct {
	backend   string
	sw        bool
	loader    bool
	optLen    int
	optSpare  int
	lnState   bool // the listener's options carry an application-wide WithState
	acceptors int
	unixLike  bool // connections are accepted on a unix socket: every peer has the same (empty) remote address
	base      bool // the application configured its own TLS server configuration (plain TLS clients are served by it)
	clients   []*c15Client
}

// c15Outcome is what is compared between the one-at-a-time and the concurrent execution.
type c15Outcome struct {
	DialOK        bool
	NotAuthorized bool
	ServerConn    bool
	ServerProto   string
	ClientState   string
	Extras        string
	RecordExists  bool
	RecordState   string
	TokenConsumed bool
}

func js(m proto.Message) string {
	if m == nil || !m.ProtoReflect().IsValid() {
		return "<nil>"
	}
	b, err := protojson.MarshalOptions{}.Marshal(m)
	if err != nil {
		return "?"
	}
	// protojson output is not byte-stable across runs: normalise whitespace
	return strings.Join(strings.Fields(string(b)), "")
}

func c15Run(r *kernel.Run, plan *c15Plan, concurrent bool, tag string) ([]c15Outcome, int) {
	srv := NewWorld(r, "server-"+tag, plan.backend, plan.sw, plan.loader)
	if _, err := rotation.RotateRootCertificates(srv.Ctx, srv.Storage, srv.Opts()...); err != nil {
		r.HarnessErr("roots: %v", err)
	}
	// the option slice the application passes: tape-chosen length and spare capacity
	base := srv.Opts()
	pad := []nodeenrollment.Option{nodeenrollment.WithCertificateLifetime(0), nodeenrollment.WithSkipStorage(false), nodeenrollment.WithNativeConns(false), nodeenrollment.WithTestErrorContains(""), nil}
	for len(base) < plan.optLen {
		base = append(base, pad[len(base)%len(pad)])
	}
	if plan.lnState {
		// made anew for each of the two executions: nothing the library does with it in one can reach the other
		st, _ := structpb.NewStruct(map[string]any{"deployment": "shared-by-all-connections"})
		base = append(base, nodeenrollment.WithState(st))
	}
	options := make([]nodeenrollment.Option, 0, len(base)+plan.optSpare)
	options = append(options, base...)

	type cl struct {
		c       *c15Client
		w       *World
		keyID   string
		tokenID string
		dopts   []nodeenrollment.Option
		res     *dialRes
	}
	var cls []*cl
	for _, c := range plan.clients {
		x := &cl{c: c, w: NewWorld(r, fmt.Sprintf("%s-node%d", tag, c.idx), "inmem", false, false)}
		extras := append([]string{c.marker}, c.extras...)
		x.dopts = append(x.dopts, nodeenrollment.WithExtraAlpnProtos(extras))
		if c.cstate != nil {
			x.dopts = append(x.dopts, nodeenrollment.WithState(c.cstate))
		}
		switch c.kind {
		case "base-tls":
			// a plain TLS client of the application; c.extras is what it offers (possibly nothing at all)
		case "auth", "rejected-auth":
			creds, id := enrollStored(r, srv, x.w, c.recState, "")
			_ = creds
			x.keyID = id.KeyId
			if c.kind == "rejected-auth" {
				srv.Inner.Remove(contextBG, &types.NodeInformation{Id: id.KeyId})
			}
		case "authorized-fetch", "unauthorized-fetch":
			creds, err := types.NewNodeCredentials(x.w.Ctx, x.w.Storage)
			if err != nil {
				r.HarnessErr("new creds: %v", err)
			}
			x.keyID = keyID(creds.CertificatePublicKeyPkix)
			if c.kind == "authorized-fetch" {
				req, _ := creds.CreateFetchNodeCredentialsRequest(contextBG)
				aopts := srv.Opts()
				if c.recState != nil {
					aopts = append(aopts, nodeenrollment.WithState(c.recState))
				}
				if _, err := registration.AuthorizeNode(srv.Ctx, srv.Storage, req, aopts...); err != nil {
					r.HarnessErr("authorize: %v", err)
				}
			}
		case "same-key-other-request":
			orig, err := types.LoadNodeCredentials(contextBG, cls[c.twinOf].w.Storage, nodeenrollment.CurrentId)
			if err != nil {
				r.HarnessErr("twin: load the other client's credentials: %v", err)
			}
			cp := proto.Clone(orig).(*types.NodeCredentials)
			cp.RegistrationNonce = make([]byte, nodeenrollment.NonceSize)
			rand.Read(cp.RegistrationNonce)
			if err := cp.Store(contextBG, x.w.Storage); err != nil {
				r.HarnessErr("twin: store credentials: %v", err)
			}
		case "token":
			topts := srv.Opts()
			if c.recState != nil {
				topts = append(topts, nodeenrollment.WithState(c.recState))
			}
			tid, tok, err := registration.CreateServerLedActivationToken(srv.Ctx, srv.Storage, &types.ServerLedRegistrationRequest{}, topts...)
			if err != nil {
				r.HarnessErr("token: %v", err)
			}
			x.tokenID = tid
			creds, err := types.NewNodeCredentials(x.w.Ctx, x.w.Storage, nodeenrollment.WithActivationToken(tok))
			if err != nil {
				r.HarnessErr("new creds: %v", err)
			}
			x.keyID = keyID(creds.CertificatePublicKeyPkix)
			x.dopts = append(x.dopts, nodeenrollment.WithActivationToken(tok))
		}
		cls = append(cls, x)
	}
	var baseCfg *tls.Config
	if plan.base {
		bc, _ := selfSignedTLS("base.example", x509.ExtKeyUsageServerAuth)
		baseCfg = &tls.Config{Certificates: []tls.Certificate{bc}, NextProtos: []string{"h2", "http/1.1"}}
	}
	w := NewWire(r, srv, baseCfg, options)
	w.Net.UnixLike = plan.unixLike
	// per-client network faults: keyed by the dialing goroutine's name, so that the same client meets the same fault
	// whether it runs alone or among the others
	faultOf := map[string]*c15Client{}
	connsOf := map[string]int{}
	for _, c := range plan.clients {
		if c.drop {
			faultOf[fmt.Sprintf("%s-c%d", tag, c.idx)] = c
		}
	}
	w.Net.NextFault = func(c *simnet.Conn) {
		who := c.LocalAddr().String()
		fc := faultOf[who]
		if fc == nil {
			return
		}
		j := connsOf[who]
		connsOf[who]++
		if j != fc.dropConn {
			return
		}
		t := c
		if fc.dropSide == 1 {
			t = c.Peer
		}
		t.DropAtWrite = fc.dropK
		r.Count("fault.connection_reset_mid_handshake", 1)
	}
	for i := 0; i < plan.acceptors; i++ {
		w.StartAcceptor(fmt.Sprintf("%s-acceptor%d", tag, i))
	}
	// per-run priorities so that long overtakes happen
	if concurrent && r.Tape.Draw(2) == 0 {
		r.Sched.Prio = map[string]int{}
		var names []string
		for _, x := range cls {
			names = append(names, fmt.Sprintf("%s-c%d", tag, x.c.idx))
		}
		for i := 0; i < plan.acceptors; i++ {
			names = append(names, fmt.Sprintf("%s-acceptor%d", tag, i))
		}
		for i, p := range r.Tape.Perm(len(names)) {
			r.Sched.Prio[names[i]] = p
		}
	} else {
		r.Sched.Prio = nil
	}
	var accepted []*acceptRes
	start := func(x *cl) {
		name := fmt.Sprintf("%s-c%d", tag, x.c.idx)
		if x.c.kind == "base-tls" {
			x.res = w.rawClient(name, &tls.Config{NextProtos: x.c.extras, InsecureSkipVerify: true, MinVersion: tls.VersionTLS13, ServerName: "base.example"})
			return
		}
		x.res = w.DialHonest(name, x.w, w.Addr, x.dopts...)
	}
	if concurrent {
		for _, x := range cls {
			start(x)
		}
		w.Quiesce()
		accepted = w.Take()
	} else {
		for _, x := range cls {
			start(x)
			w.Quiesce()
			accepted = append(accepted, w.Take()...)
		}
	}
	steps := r.Sched.Steps
	out := make([]c15Outcome, len(cls))
	for i, x := range cls {
		o := &out[i]
		if !x.res.done {
			r.Violate("isolation", "client-stuck", "%s client %d (%s) did not finish; parked=%v", tag, x.c.idx, x.c.kind, r.Sched.ParkedAt())
		}
		o.DialOK = x.res.err == nil
		o.NotAuthorized = errors.Is(x.res.err, nodeenrollment.ErrNotAuthorized)
		if x.c.kind == "same-key-other-request" {
			// refused either way; HOW depends on whether the first request has been served yet, which is not this check's business
			o.NotAuthorized = false
			if o.DialOK {
				r.Violate("isolation", "request-answered-with-another-connections-answer", "%s: client %d used client %d's certificate key with another request (other nonce, no token) and was served: %v", tag, x.c.idx, x.c.twinOf, x.res.conn != nil)
			}
		}
		for _, a := range accepted {
			if a.panicMsg != "" {
				r.Violate("no-panic", "accept-panic/"+a.panicSite, "%s", a.panicMsg)
			}
			if a.err != nil || a.conn == nil {
				continue
			}
			if x.c.kind == "base-tls" {
				// no marker to go by (the client may offer nothing): the connection is identified by its peer address
				if simPeerOf(a.raw) != fmt.Sprintf("%s-c%d", tag, x.c.idx) {
					continue
				}
				o.ServerConn = true
				o.ServerProto = a.negotiated
				o.ClientState = js(a.conn.ClientState())
				got := a.conn.ClientNextProtos()
				o.Extras = strings.Join(got, ",")
				// handled alone on a fresh process this connection reports exactly what its ClientHello offered
				if !equalStrings(got, x.c.extras) {
					r.Violate("isolation", "plain-tls-connection-reports-foreign-protocols", "%s: a plain TLS client offering %q is reported with the protocol list %q (len %d)", tag, x.c.extras, truncList(got), len(got))
				}
				if st := a.conn.ClientState(); st != nil && len(st.Fields) > 0 {
					r.Violate("isolation", "plain-tls-connection-reports-foreign-state", "%s: a plain TLS client is reported with client state %s", tag, js(st))
				}
				continue
			}
			protos := a.conn.ClientNextProtos()
			mine := false
			var tail []string
			for j, p := range protos {
				if p == x.c.marker {
					mine = true
					tail = protos[j:]
				}
			}
			if !mine {
				continue
			}
			if o.ServerConn {
				r.Violate("isolation", "connection-delivered-twice", "%s: two server connections carry client %d's marker", tag, x.c.idx)
			}
			o.ServerConn = true
			if strings.HasPrefix(a.negotiated, nodeenrollment.AuthenticateNodeNextProtoV1Prefix) {
				o.ServerProto = "authenticate"
			} else {
				o.ServerProto = a.negotiated
			}
			o.ClientState = js(a.conn.ClientState())
			o.Extras = strings.Join(tail, ",")
		}
		if ni, err := types.LoadNodeInformation(contextBG, srv.Inner, x.keyID, srv.Opts()...); x.keyID != "" && err == nil {
			o.RecordExists = true
			o.RecordState = js(ni.State)
		}
		if x.tokenID != "" {
			o.TokenConsumed = !tokenPresent(srv, x.tokenID)
		}
	}
	for _, a := range accepted {
		if a.raw != nil {
			a.raw.Close()
		}
	}
	for _, x := range cls {
		if x.res.conn != nil {
			x.res.conn.Close()
		}
	}
	w.Ln.Close()
	w.Quiesce()
	w.Take()
	return out, steps
}

// C15: concurrent handshakes are isolated from one another.
func propC15(r *kernel.Run) {
	tp := r.Tape
	plan := &c15Plan{backend: Pick2(tp, "inmem", "storeonce"), sw: tp.Draw(2) == 0, loader: tp.Draw(3) == 0,
		optLen: tp.Draw(13), optSpare: tp.Draw(9), acceptors: tp.Range(2, r.Deep(4, 6)), base: tp.Draw(3) == 0, lnState: tp.Draw(3) == 0}
	plan.unixLike = tp.Draw(3) == 0
	n := tp.Range(2, r.Deep(6, 9))
	var kinds []string
	for i := 0; i < n; i++ {
		c := &c15Client{idx: i, marker: fmt.Sprintf("client-marker-%d", i)}
		c.kind = Pick2(tp, "auth", "auth", "authorized-fetch", "unauthorized-fetch", "token", "token", "token", "rejected-auth")
		if i > 0 && (plan.clients[i-1].kind == "token" || plan.clients[i-1].kind == "authorized-fetch") && tp.Draw(4) == 0 {
			// the same node key turns up on a second connection with ANOTHER request (other nonce, no token): alone it is
			// refused whenever it runs - it must not be handed the answer to the first one's request
			c.kind, c.twinOf = "same-key-other-request", i-1
		}
		if tp.Draw(2) == 0 {
			c.extras = []string{fmt.Sprintf("proto-%d", tp.Draw(4))}
		}
		if plan.base && c.kind != "same-key-other-request" && tp.Draw(3) == 0 {
			c.kind = "base-tls"
			c.extras = [][]string{nil, nil, {"h2"}, {"http/1.1", "h2"}}[tp.Draw(4)]
		}
		mk := func(tagk string) *structpb.Struct {
			s, _ := structpb.NewStruct(map[string]any{"owner": fmt.Sprintf("%s-of-client-%d", tagk, i), "n": float64(tp.Draw(1000)), fmt.Sprintf("only-of-client-%d", i): true})
			return s
		}
		if tp.Draw(3) != 0 {
			c.cstate = mk("client-state")
		}
		if tp.Draw(4) != 0 {
			c.recState = mk("record-state")
		}
		if tp.Draw(5) == 0 {
			c.drop, c.dropConn, c.dropSide, c.dropK = true, tp.Draw(3), tp.Draw(2), tp.Draw(6)
		}
		plan.clients = append(plan.clients, c)
		kinds = append(kinds, c.kind)
	}
	seq, _ := c15Run(r, plan, false, "seq")
	before := r.Sched.Steps
	con, _ := c15Run(r, plan, true, "con")
	r.Count("cases", 1)
	r.Count("oracle.concurrent_steps", int64(r.Sched.Steps-before))
	for i, c := range plan.clients {
		r.Count("ops.client."+c.kind, 1)
		if seq[i] != con[i] {
			field := c15DiffField(seq[i], con[i])
			r.Violate("isolation", "outcome-differs-from-sequential/"+c.kind+"/"+field,
				"client %d (%s) handled concurrently with %v (options len=%d spare capacity=%d, %d acceptors): alone %+v, concurrently %+v",
				i, c.kind, kinds, plan.optLen, plan.optSpare, plan.acceptors, seq[i], con[i])
		}
	}
	sort.Strings(kinds)
	r.FP(kinds, plan.optLen, plan.optSpare, plan.acceptors, r.Sched.Hash())
	r.StateFP(kinds, plan.optSpare > 0)
	if r.Index%100 == 0 {
		r.SetSample(map[string]any{"clients": kinds, "option_slice_len": plan.optLen, "option_slice_spare_capacity": plan.optSpare, "acceptors": plan.acceptors, "sequential_outcomes": seq})
	}
}

// simPeerOf unwraps TLS layers down to the simulated connection and names the actor at its other end.
func simPeerOf(c net.Conn) string {
	for i := 0; i < 4 && c != nil; i++ {
		if sc, ok := c.(*simnet.Conn); ok {
			return sc.Peer2()
		}
		u, ok := c.(interface{ NetConn() net.Conn })
		if !ok {
			break
		}
		c = u.NetConn()
	}
	return ""
}

func c15DiffField(a, b c15Outcome) string {
	switch {
	case a.DialOK != b.DialOK || a.NotAuthorized != b.NotAuthorized:
		return "dial-result"
	case a.ServerConn != b.ServerConn || a.ServerProto != b.ServerProto:
		return "accept-result"
	case a.ClientState != b.ClientState:
		return "client-state"
	case a.Extras != b.Extras:
		return "protocol-list"
	case a.RecordExists != b.RecordExists:
		return "record-exists"
	case a.RecordState != b.RecordState:
		return "record-state"
	case a.TokenConsumed != b.TokenConsumed:
		return "token-consumed"
	}
	return "?"
}

var _ = bytes.Equal

func init() {
	register(&Prop{ID: "C15", Engine: propC15})
}
