//go:build verif

package engines

import (
	"bufio"
	"encoding/json"
	"fmt"
	"hash/fnv"
	"os"
	"runtime"
	"sort"
	"strconv"
	"strings"
	"sync/atomic"
	"testing"
	"time"

	"verifsim/kernel"
)

func envInt(k string, def int64) int64 {
	if v := os.Getenv(k); v != "" {
		n, err := strconv.ParseInt(v, 10, 64)
		if err == nil {
			return n
		}
	}
	return def
}

func runSeed(base uint64, prop string, idx int) uint64 {
	h := fnv.New64a()
	h.Write([]byte(prop))
	return kernel.SplitMix(kernel.SplitMix(base^h.Sum64()) + uint64(idx))
}

type summary struct {
	Type       string           `json:"type"`
	Worker     int              `json:"worker"`
	Runs       int64            `json:"runs"`
	Discarded  int64            `json:"discarded"`
	FirstIdx   int              `json:"first_index"`
	LastIdx    int              `json:"last_index"`
	Stats      map[string]int64 `json:"stats"`
	Known      map[string]int64 `json:"known"`
	FPs        []string         `json:"fps"`
	FPTotal    int              `json:"fp_total_local"`
	Scheds     []string         `json:"scheds"`
	SchedTotal int              `json:"sched_total_local"`
	States     []string         `json:"states"`
	StateTotal int              `json:"state_total_local"`
	SimSec     float64          `json:"sim_s"`
	Steps      int64            `json:"steps"`
	Samples    []any            `json:"samples"`
	WallS      float64          `json:"wall_s"`
	EnumDone   bool             `json:"enum_done"`
}

type violationRec struct {
	Type     string            `json:"type"`
	Result   *kernel.Result    `json:"result"`
	Shrunk   []uint32          `json:"shrunk_tape"`
	ShrunkTr []string          `json:"shrunk_trace"`
	Attempts int               `json:"shrink_attempts"`
	Flaky    int               `json:"replays_needed_beyond_first"`
	Confirm  *kernel.Violation `json:"confirmed"`
}

const setCap = 150000

func dumpSet(m map[uint64]struct{}) []string {
	out := make([]string, 0, len(m))
	for k := range m {
		out = append(out, strconv.FormatUint(k, 36))
		if len(out) >= setCap {
			break
		}
	}
	return out
}

func loadKnown(prop string) map[string]bool {
	known := map[string]bool{}
	if p := os.Getenv("VERIF_KNOWN"); p != "" {
		f, err := os.Open(p)
		if err == nil {
			sc := bufio.NewScanner(f)
			for sc.Scan() {
				l := strings.TrimSpace(sc.Text())
				if l != "" {
					known[l] = true
				}
			}
			f.Close()
		}
	}
	return known
}

// TestWorker is the single entry point the driver (bin/check) runs, one OS
// process per worker: it executes simulated runs for one property until its
// budget is spent and writes JSON lines to VERIF_OUT.
func TestWorker(t *testing.T) {
	propID := os.Getenv("VERIF_PROP")
	if propID == "" {
		t.Skip("VERIF_PROP not set (run through bin/check)")
	}
	p := registry[propID]
	if p == nil {
		fmt.Println("HARNESS-ERROR unknown property", propID)
		os.Exit(2)
	}
	known := loadKnown(propID)
	outPath := os.Getenv("VERIF_OUT")
	out := os.Stdout
	if outPath != "" {
		f, err := os.OpenFile(outPath, os.O_CREATE|os.O_WRONLY|os.O_APPEND, 0o644)
		if err != nil {
			fmt.Println("HARNESS-ERROR", err)
			os.Exit(2)
		}
		defer f.Close()
		out = f
	}
	emit := func(v any) {
		b, err := json.Marshal(v)
		if err != nil {
			b, _ = json.Marshal(map[string]string{"type": "harness", "error": err.Error()})
		}
		out.Write(append(b, '\n'))
		out.Sync()
	}

	if rp := os.Getenv("VERIF_REPLAY"); rp != "" {
		replay(t, p, rp, known, emit)
		return
	}

	base := uint64(envInt("VERIF_SEED", 1))
	worker := int(envInt("VERIF_WORKER", 0))
	workers := int(envInt("VERIF_WORKERS", 1))
	budget := time.Duration(envInt("VERIF_BUDGET_MS", 5000)) * time.Millisecond
	maxRuns := envInt("VERIF_MAXRUNS", 1<<60)
	shrinkS := time.Duration(envInt("VERIF_SHRINK_S", 20)) * time.Second
	maxViol := int(envInt("VERIF_MAXVIOL", 3))
	var stateF *os.File
	if sp := os.Getenv("VERIF_STATE"); sp != "" {
		stateF, _ = os.OpenFile(sp, os.O_CREATE|os.O_WRONLY, 0o644)
	}

	var digestF *os.File
	if dp := os.Getenv("VERIF_DIGEST_OUT"); dp != "" {
		digestF, _ = os.OpenFile(dp, os.O_CREATE|os.O_WRONLY|os.O_TRUNC, 0o644)
		defer digestF.Close()
	}
	start := time.Now()
	sum := &summary{Type: "summary", Worker: worker, Stats: map[string]int64{}, Known: map[string]int64{}, FirstIdx: worker}
	fps := map[uint64]struct{}{}
	scheds := map[uint64]struct{}{}
	states := map[uint64]struct{}{}
	seenSig := map[string]bool{}
	nviol := 0
	// real-time watchdog (outside any bubble): a run that does not finish is a machinery problem (a goroutine blocked
	// where synctest cannot see it); say so and stop instead of hanging until the driver's timeout
	var runStart atomic.Int64
	var curIdx atomic.Int64
	hangLimit := time.Duration(envInt("VERIF_HANG_S", 45)) * time.Second
	go func() {
		for {
			time.Sleep(2 * time.Second)
			if st := runStart.Load(); st != 0 && time.Since(time.Unix(0, st)) > hangLimit {
				idx := int(curIdx.Load())
				// Which goroutine is blocked where synctest cannot see it? A goroutine waiting for a mutex taken inside
				// library code, while the holder is parked at a storage/network seam, means one operation's progress
				// depends on another's I/O: reported as a violation (lock coupling). Anything else is a machinery problem.
				buf := make([]byte, 4<<20)
				buf = buf[:runtime.Stack(buf, true)]
				if site := lockCouplingSite(string(buf)); site != "" {
					emit(&violationRec{Type: "violation", Flaky: -2, Result: &kernel.Result{Prop: propID, Seed: runSeed(base, propID, idx), Index: idx, Tape: []uint32{},
						Violation: &kernel.Violation{Oracle: "no-lock-coupling", Signature: propID + "/blocked-on-library-lock/" + site,
							Detail: "a goroutine is blocked on a mutex inside " + site + " while the lock holder waits at a storage or network seam: the run cannot make progress (one operation's completion depends on another operation's I/O)"}}})
				} else {
					emit(map[string]any{"type": "hung", "index": idx, "seed": runSeed(base, propID, idx), "seconds": hangLimit.Seconds()})
				}
				os.Exit(3)
			}
		}
	}()
	idx := worker
	only := envInt("VERIF_ONLY", -1)
	if only >= 0 {
		idx = int(only)
		maxRuns = 1
	}
	for ; ; idx += workers {
		inEnum := idx < p.MinRuns && only < 0
		if !inEnum {
			if time.Since(start) > budget || sum.Runs >= maxRuns {
				break
			}
		}
		seed := runSeed(base, propID, idx)
		if stateF != nil {
			stateF.WriteAt([]byte(fmt.Sprintf("%-12d %-24d\n", idx, seed)), 0)
		}
		sp := kernel.Spec{Prop: propID, Seed: seed, Index: idx, Known: known, Scale: scaleOfTier()}
		curIdx.Store(int64(idx))
		runStart.Store(time.Now().UnixNano())
		res := kernel.Exec(t, sp, p.Engine)
		sum.Runs++
		sum.LastIdx = idx
		if digestF != nil {
			fmt.Fprintf(digestF, "%d %016x\n", idx, digestOf(res))
			if os.Getenv("VERIF_DIGEST_DEBUG") != "" {
				fmt.Fprintf(digestF, "  tape=%v\n  sched=%x steps=%d fps=%v\n  stats=%v\n  viol=%+v sim=%.9f\n", res.Tape, res.SchedHash, res.Steps, res.FPs, res.Stats, res.Violation, res.SimSec)
			}
		}
		if res.Discarded {
			sum.Discarded++
		}
		for k, v := range res.Stats {
			sum.Stats[k] += v
		}
		for k, v := range res.Known {
			sum.Known[k] += v
		}
		for _, f := range res.FPs {
			if len(fps) < 4*setCap {
				fps[f] = struct{}{}
			}
		}
		for _, f := range res.StateFPs {
			if len(states) < 4*setCap {
				states[f] = struct{}{}
			}
		}
		if res.SchedHash != 0 && len(scheds) < 4*setCap {
			scheds[res.SchedHash] = struct{}{}
		}
		sum.SimSec += res.SimSec
		sum.Steps += res.Steps
		if res.Sample != nil && len(sum.Samples) < 3 {
			sum.Samples = append(sum.Samples, res.Sample)
		}
		if res.Harness != "" {
			emit(map[string]any{"type": "harness", "index": idx, "seed": seed, "error": res.Harness, "tape": res.Tape})
			break
		}
		if res.Violation != nil {
			if seenSig[res.Violation.Signature] {
				sum.Stats["violations_repeated"]++
				continue
			}
			seenSig[res.Violation.Signature] = true
			nviol++
			// re-run with trace, shrink, confirm
			sp.Tape = res.Tape
			sp.Trace = true
			full := kernel.Exec(t, sp, p.Engine)
			flaky := 0
			for full.Violation == nil || full.Violation.Signature != res.Violation.Signature {
				// The run did not reproduce from its own tape. The only sources the tape cannot drive are choices the
				// library makes from Go map iteration order where no hook exists; retry a few times before giving up.
				flaky++
				if flaky > 12 {
					break
				}
				full = kernel.Exec(t, sp, p.Engine)
			}
			rec := &violationRec{Type: "violation", Result: full, Flaky: flaky}
			if full.Violation == nil || full.Violation.Signature != res.Violation.Signature {
				// observed for real, but not replayable from the tape: report it as such (no shrinking)
				emit(&violationRec{Type: "violation", Result: res, Flaky: -1})
				if nviol >= maxViol {
					break
				}
				continue
			}
			runStart.Store(time.Now().Add(shrinkS).UnixNano())
			shr, att := kernel.Shrink(t, sp, res.Violation.Signature, p.Engine, shrinkS)
			runStart.Store(time.Now().UnixNano())
			rec.Attempts = att
			sp.Tape = shr
			conf := kernel.Exec(t, sp, p.Engine)
			if conf.Violation != nil && conf.Violation.Signature == res.Violation.Signature {
				rec.Shrunk = shr
				if rec.Shrunk == nil {
					rec.Shrunk = []uint32{}
				}
				rec.ShrunkTr = conf.Trace
				rec.Confirm = conf.Violation
			}
			emit(rec)
			if nviol >= maxViol {
				break
			}
		}
	}
	runStart.Store(0)
	sum.EnumDone = idx >= p.MinRuns
	sum.FPs, sum.FPTotal = dumpSet(fps), len(fps)
	sum.Scheds, sum.SchedTotal = dumpSet(scheds), len(scheds)
	sum.States, sum.StateTotal = dumpSet(states), len(states)
	sum.WallS = time.Since(start).Seconds()
	emit(sum)
}

// lockCouplingSite looks through a full goroutine dump for a goroutine blocked in sync.(*Mutex).Lock / RWMutex
// whose first non-runtime frame is library code, and returns that function name.
func lockCouplingSite(dump string) string {
	for _, g := range strings.Split(dump, "\n\n") {
		lines := strings.Split(g, "\n")
		if len(lines) == 0 || !(strings.Contains(lines[0], "sync.Mutex.Lock") || strings.Contains(lines[0], "sync.RWMutex")) {
			continue
		}
		for _, l := range lines[1:] {
			l = strings.TrimSpace(l)
			if strings.HasPrefix(l, "github.com/hashicorp/nodeenrollment/") && !strings.Contains(l, "/storage/") {
				if i := strings.LastIndex(l, "("); i > 0 {
					f := l[:i]
					return f[strings.LastIndex(f, "/")+1:]
				}
			}
		}
	}
	return ""
}

// digestOf is the canonical digest of one run used by the determinism self-test:
// every tape choice, the schedule hash, all counters, fingerprints and the verdict.
func digestOf(res *kernel.Result) uint64 {
	h := fnv.New64a()
	fmt.Fprint(h, res.Tape, res.SchedHash, res.Steps, res.FPs, res.StateFPs, res.Discarded, res.Harness)
	keys := make([]string, 0, len(res.Stats))
	for k := range res.Stats {
		keys = append(keys, k)
	}
	sort.Strings(keys)
	for _, k := range keys {
		fmt.Fprint(h, k, res.Stats[k])
	}
	if res.Violation != nil {
		fmt.Fprint(h, res.Violation.Signature, res.Violation.Detail)
	}
	fmt.Fprintf(h, "%.9f", res.SimSec)
	return h.Sum64()
}

type replayFile struct {
	Property  string            `json:"property"`
	Seed      uint64            `json:"seed"`
	Index     int               `json:"index"`
	Tape      []uint32          `json:"tape"`
	Scale     int               `json:"scale"`
	Violation *kernel.Violation `json:"violation"`
}

// scaleOfTier: the thorough tier draws from wider bounds (Run.Deep).
func scaleOfTier() int {
	if os.Getenv("VERIF_TIER") == "thorough" {
		return 2
	}
	return 1
}

func replay(t *testing.T, p *Prop, path string, known map[string]bool, emit func(any)) {
	b, err := os.ReadFile(path)
	if err != nil {
		fmt.Println("HARNESS-ERROR", err)
		os.Exit(2)
	}
	var rf replayFile
	if err := json.Unmarshal(b, &rf); err != nil {
		fmt.Println("HARNESS-ERROR", err)
		os.Exit(2)
	}
	tape := rf.Tape
	if tape == nil {
		tape = []uint32{}
	}
	res := kernel.Exec(t, kernel.Spec{Prop: p.ID, Seed: rf.Seed, Index: rf.Index, Tape: tape, Known: known, Trace: true, Scale: rf.Scale}, p.Engine)
	emit(map[string]any{"type": "replay", "result": res, "expected": rf.Violation})
}
