//go:build verif

package engines

import (
	"context"
	"crypto/tls"
	"encoding/base64"
	"fmt"
	"net"
	"sort"
	"strings"

	"github.com/hashicorp/nodeenrollment"
	"github.com/hashicorp/nodeenrollment/protocol"
	"github.com/hashicorp/nodeenrollment/registration"
	nodetls "github.com/hashicorp/nodeenrollment/tls"
	"github.com/hashicorp/nodeenrollment/types"
	"google.golang.org/protobuf/proto"
	"google.golang.org/protobuf/types/known/structpb"

	"verifsim/kernel"
	"verifsim/simnet"
)

// acceptRes is what one Accept call of the intercepting listener produced.
type acceptRes struct {
	conn       *protocol.Conn
	raw        net.Conn
	err        error
	temporary  bool
	panicMsg   string
	panicSite  string
	negotiated string
	by         string
}

// Wire is a server (real InterceptingListener over simnet) plus helpers to run clients against it.
type Wire struct {
	R        *kernel.Run
	Net      *simnet.Net
	Srv      *World
	Ln       *simnet.Listener
	IL       *protocol.InterceptingListener
	Addr     string
	Accepted []*acceptRes
	Dialed   []string // "network address" of every dial protocol.Dial made through hook H1
	wrongNet string
	stopped  bool
}

func isTemporary(err error) bool {
	if t, ok := err.(interface{ Temporary() bool }); ok && t.Temporary() {
		return true
	}
	return false
}

// NewWire creates the listener. options are the InterceptingListenerConfiguration.Options.
func NewWire(r *kernel.Run, srv *World, base *tls.Config, options []nodeenrollment.Option) *Wire {
	w := &Wire{R: r, Net: simnet.New(r), Srv: srv, Addr: "server:9202"}
	w.Ln = w.Net.Listen(w.Addr)
	il, err := protocol.NewInterceptingListener(&protocol.InterceptingListenerConfiguration{
		Context: srv.Ctx, Storage: srv.Storage, BaseListener: w.Ln, BaseTlsConfiguration: base, Options: options,
	})
	if err != nil {
		r.HarnessErr("intercepting listener: %v", err)
	}
	w.IL = il
	protocol.SimDial = func(ctx context.Context, network, addr string) (net.Conn, error) {
		// the address handed to Dial may be a unix path, host:port or a bare host: all map to the simulated server; which
		// network Dial chose for it is recorded (a path is a unix socket, everything else tcp)
		w.Dialed = append(w.Dialed, network+" "+addr)
		if want := map[bool]string{true: "unix", false: "tcp"}[strings.HasPrefix(addr, "/")]; network != want && w.wrongNet == "" {
			// noted here (a dialer goroutine), reported by the engine goroutine at its next Quiesce
			w.wrongNet = fmt.Sprintf("Dial chose network %q for address %q (a path beginning with / is a unix socket, anything else tcp)", network, addr)
		}
		c, err := w.Net.Dial(w.Addr, r.Sched.Name())
		if err != nil {
			return nil, err
		}
		c.Capture = true
		return c, nil
	}
	// hook H3: the order in which Dial tries its (up to two) chains is a tape choice instead of map-iteration order
	nodetls.SimOrderConfigs = func(cfgs []*tls.Config) {
		sort.SliceStable(cfgs, func(i, j int) bool { return prefOf(cfgs[i]) < prefOf(cfgs[j]) })
		if len(cfgs) == 2 && r.Tape.Draw(2) == 1 {
			cfgs[0], cfgs[1] = cfgs[1], cfgs[0]
		}
	}
	r.OnEnd(func() { protocol.SimDial = nil; nodetls.SimOrderConfigs = nil })
	r.Sched.Managed()
	return w
}

func prefOf(c *tls.Config) string {
	for _, p := range c.NextProtos {
		if strings.HasPrefix(p, nodeenrollment.CertificatePreferenceV1Prefix) {
			return p
		}
	}
	return ""
}

// StartAcceptor runs a gRPC-like accept loop: continue on temporary errors, stop otherwise.
func (w *Wire) StartAcceptor(name string) {
	w.R.Sched.Go(name, "acceptor", func() {
		tempStreak := 0
		for {
			res := &acceptRes{by: name}
			var c net.Conn
			p, msg, site := kernel.Guard(func() { c, res.err = w.IL.Accept() })
			if p {
				res.panicMsg, res.panicSite = msg, site
				w.Accepted = append(w.Accepted, res)
				// a real server would have died here; keep the loop going so the run can finish and report
				continue
			}
			if res.err != nil {
				res.temporary = isTemporary(res.err)
				w.Accepted = append(w.Accepted, res)
				if res.temporary {
					// an application retries after a temporary error; one that gets nothing but temporary errors, one after the
					// other without ever blocking, is spinning on a dead listener - the loop ends here so that the run can say so
					if tempStreak++; tempStreak > 200 {
						return
					}
					continue
				}
				return
			}
			tempStreak = 0
			res.raw = c
			if pc, ok := c.(*protocol.Conn); ok {
				res.conn = pc
				res.negotiated = pc.ConnectionState().NegotiatedProtocol
			}
			w.Accepted = append(w.Accepted, res)
		}
	})
}

// Quiesce runs the scheduler until nothing is enabled.
func (w *Wire) Quiesce() int {
	n := w.R.Sched.RunToQuiescence(200000)
	if w.wrongNet != "" {
		msg := w.wrongNet
		w.wrongNet = ""
		w.R.Violate("dial-network", "dialed-wrong-network", "%s", msg)
	}
	return n
}

// Take returns the accept results produced since the last call.
func (w *Wire) Take() []*acceptRes {
	out := w.Accepted
	w.Accepted = nil
	return out
}

// dialRes is the outcome of one client attempt.
type dialRes struct {
	conn   net.Conn
	err    error
	hello  []string // ALPN list of the last ClientHello this client sent
	hellos [][]string
	done   bool
}

// DialHonest spawns an honest node actor calling the real protocol.Dial.
func (w *Wire) DialHonest(name string, node *World, addr string, opts ...nodeenrollment.Option) *dialRes {
	res := &dialRes{}
	first := len(w.Net.Conns)
	w.R.Sched.Go(name, "dialer", func() {
		p, msg, site := kernel.Guard(func() { res.conn, res.err = protocol.Dial(node.Ctx, node.Storage, addr, node.Opts(opts...)...) })
		if p {
			res.err = fmt.Errorf("PANIC in Dial: %s (%s)", msg, site)
		}
		for _, c := range w.Net.Conns[first:] {
			if strings.Contains(c.Name, "."+name+".") {
				if al, ok := parseClientHelloALPN(c.FirstWrite); ok {
					res.hello = al
					res.hellos = append(res.hellos, al)
				}
			}
		}
		res.done = true
	})
	return res
}

// rawClient spawns an adversarial/hand-written TLS client.
func (w *Wire) rawClient(name string, cfg *tls.Config) *dialRes {
	res := &dialRes{}
	w.R.Sched.Go(name, "adversary", func() {
		c, err := w.Net.Dial(w.Addr, name)
		if err != nil {
			res.err = err
			res.done = true
			return
		}
		c.Capture = true
		tc := tls.Client(c, cfg)
		res.err = tc.HandshakeContext(context.Background())
		if al, ok := parseClientHelloALPN(c.FirstWrite); ok {
			res.hello = al
		}
		if res.err == nil {
			res.conn = tc
		} else {
			c.Close()
		}
		res.done = true
	})
	return res
}

// enrollStored gives a node world stored, enrolled credentials through the direct API (fast path used for setup).
func enrollStored(r *kernel.Run, srv, node *World, state *structpb.Struct, nodeID string) (*types.NodeCredentials, *Ident) {
	creds, err := types.NewNodeCredentials(node.Ctx, node.Storage, node.Opts()...)
	if err != nil {
		r.HarnessErr("new node credentials: %v", err)
	}
	req, err := creds.CreateFetchNodeCredentialsRequest(node.Ctx)
	if err != nil {
		r.HarnessErr("create request: %v", err)
	}
	aopts := srv.Opts()
	if state != nil {
		aopts = append(aopts, nodeenrollment.WithState(state))
	}
	ni, err := registration.AuthorizeNode(srv.Ctx, srv.Storage, req, aopts...)
	if err != nil {
		r.HarnessErr("authorize: %v", err)
	}
	if nodeID != "" {
		setNodeID(r, srv, ni, nodeID)
	}
	resp, err := registration.FetchNodeCredentials(srv.Ctx, srv.Storage, req, srv.Opts()...)
	if err != nil || len(resp.EncryptedNodeCredentials) == 0 {
		r.HarnessErr("fetch: %v", err)
	}
	creds, err = creds.HandleFetchNodeCredentialsResponse(node.Ctx, node.Storage, resp, node.Opts()...)
	if err != nil {
		r.HarnessErr("handle: %v", err)
	}
	id := identFromCreds(creds)
	return creds, id
}

// parseClientHelloALPN extracts the ALPN protocol list from the bytes a client wrote first (one or more TLS records).
func parseClientHelloALPN(b []byte) ([]string, bool) {
	var hs []byte
	for len(b) >= 5 {
		if b[0] != 22 {
			break
		}
		n := int(b[3])<<8 | int(b[4])
		if len(b) < 5+n {
			break
		}
		hs = append(hs, b[5:5+n]...)
		b = b[5+n:]
		if len(hs) >= 4 {
			want := int(hs[1])<<16 | int(hs[2])<<8 | int(hs[3])
			if len(hs) >= 4+want {
				break
			}
		}
	}
	if len(hs) < 4 || hs[0] != 1 {
		return nil, false
	}
	want := int(hs[1])<<16 | int(hs[2])<<8 | int(hs[3])
	if len(hs) < 4+want {
		return nil, false
	}
	p := hs[4 : 4+want]
	skip := func(n int) bool {
		if len(p) < n {
			return false
		}
		p = p[n:]
		return true
	}
	if !skip(2 + 32) {
		return nil, false
	}
	if len(p) < 1 || !skip(1+int(p[0])) {
		return nil, false
	}
	if len(p) < 2 || !skip(2+(int(p[0])<<8|int(p[1]))) {
		return nil, false
	}
	if len(p) < 1 || !skip(1+int(p[0])) {
		return nil, false
	}
	if len(p) < 2 {
		return nil, true
	}
	el := int(p[0])<<8 | int(p[1])
	p = p[2:]
	if len(p) < el {
		return nil, false
	}
	p = p[:el]
	for len(p) >= 4 {
		t := int(p[0])<<8 | int(p[1])
		l := int(p[2])<<8 | int(p[3])
		if len(p) < 4+l {
			return nil, false
		}
		d := p[4 : 4+l]
		p = p[4+l:]
		if t != 16 {
			continue
		}
		if len(d) < 2 {
			return nil, false
		}
		d = d[2:]
		var out []string
		for len(d) > 0 {
			n := int(d[0])
			if len(d) < 1+n {
				return nil, false
			}
			out = append(out, string(d[1:1+n]))
			d = d[1+n:]
		}
		return out, true
	}
	return nil, true
}

// authRequestFromALPN decodes the GenerateServerCertificatesRequest an authenticating client put in its ALPN list.
func authRequestFromALPN(alpn []string) *types.GenerateServerCertificatesRequest {
	s, err := nodetls.CombineFromNextProtos(nodeenrollment.AuthenticateNodeNextProtoV1Prefix, alpn)
	if err != nil || s == "" {
		return nil
	}
	b, err := base64.RawStdEncoding.DecodeString(s)
	if err != nil {
		return nil
	}
	req := new(types.GenerateServerCertificatesRequest)
	if proto.Unmarshal(b, req) != nil {
		return nil
	}
	return req
}

func withoutCertPref(alpn []string) []string {
	var out []string
	for _, p := range alpn {
		if !strings.HasPrefix(p, nodeenrollment.CertificatePreferenceV1Prefix) {
			out = append(out, p)
		}
	}
	return out
}
