//go:build verif

package engines

import (
	"time"
	"context"
	"fmt"
	"net"
	"reflect"
	"sort"
	"strings"
	"sync"
	"unsafe"

	nodenet "github.com/hashicorp/nodeenrollment/net"

	"verifsim/kernel"
	"verifsim/simnet"
)

// muxModel is the scheduler's model of one MultiplexingListener's lock,
// context and channel, maintained from hook-H2 arrivals only.
type muxModel struct {
	readers        int
	writer         bool
	chanClosed     bool
	ctxDone        bool
	blockedSenders int
}

// muxModels installs the lock-aware filter and select resolution for every
// MultiplexingListener seen at an H2 point.
type muxModels struct {
	r          *kernel.Run
	m          map[*nodenet.MultiplexingListener]*muxModel
	allCtxDone bool // the parent context of every listener was cancelled by the harness
}

func installMuxHooks(r *kernel.Run) *muxModels {
	mm := &muxModels{r: r, m: map[*nodenet.MultiplexingListener]*muxModel{}}
	get := func(l *nodenet.MultiplexingListener) *muxModel {
		x := mm.m[l]
		if x == nil {
			x = &muxModel{}
			mm.m[l] = x
		}
		return x
	}
	nodenet.SimPoint = func(l *nodenet.MultiplexingListener, name string) {
		r.Sched.Park(name, l, nil)
	}
	nodenet.SimSelect = func(l *nodenet.MultiplexingListener, name string) int {
		if r.Sched.Free || r.Sched.Killed() {
			return 0
		}
		x := get(l)
		if (x.ctxDone || mm.allCtxDone) && (x.blockedSenders > 0 || x.chanClosed) {
			r.Count("probe.select_both_ready", 1)
			return 1
		}
		return 0
	}
	r.OnEnd(func() { nodenet.SimPoint = nil; nodenet.SimSelect = nil })
	prevArrive := r.Sched.OnArrive
	r.Sched.OnArrive = func(p *kernel.Parked) {
		if prevArrive != nil {
			prevArrive(p)
		}
		l, ok := p.Obj.(*nodenet.MultiplexingListener)
		if !ok {
			return
		}
		x := get(l)
		switch p.Point {
		case "ingress.rlock.post":
			x.readers++
		case "ingress.runlock.post":
			x.readers--
		case "close.lock.post":
			x.writer = true
		case "close.unlock.post":
			x.writer = false
			x.chanClosed = true
		case "drain.cancel.post":
			x.ctxDone = true
		case "ingress.send.post":
			x.blockedSenders--
		}
		if x.blockedSenders < 0 {
			r.HarnessErr("mux model negative: %+v at %s", *x, p.Point)
		}
	}
	prevFilter := r.Sched.Filter
	r.Sched.Filter = func(p *kernel.Parked) bool {
		if prevFilter != nil && !prevFilter(p) {
			return false
		}
		l, ok := p.Obj.(*nodenet.MultiplexingListener)
		if !ok {
			return true
		}
		// Enabled-ness of a goroutine about to take the listener's lock is decided by probing the real RWMutex
		// (every goroutine is parked while the driver probes), not by the hook-derived model: a code change can move a
		// lock operation away from its hook, and the model would then misrepresent who holds the lock.
		mu := muxMutex(r, l)
		switch p.Point {
		case "ingress.rlock.pre":
			if mu.TryRLock() {
				mu.RUnlock()
				return true
			}
			return false
		case "close.lock.pre":
			if mu.TryLock() {
				mu.Unlock()
				return true
			}
			return false
		}
		return true
	}
	return mm
}

// muxMutex reaches the listener's private sync.RWMutex for TryLock probing. The field is found by type (the one field of
// the struct that is a sync.RWMutex or a pointer to one), so renaming it or changing pointer to value does not matter.
func muxMutex(r *kernel.Run, l *nodenet.MultiplexingListener) *sync.RWMutex {
	v := reflect.ValueOf(l).Elem()
	rw := reflect.TypeOf(sync.RWMutex{})
	var found []*sync.RWMutex
	for i := 0; i < v.NumField(); i++ {
		f := v.Field(i)
		switch {
		case f.Kind() == reflect.Ptr && f.Type().Elem() == rw && !f.IsNil():
			found = append(found, (*sync.RWMutex)(unsafe.Pointer(f.Pointer())))
		case f.Type() == rw && f.CanAddr():
			found = append(found, (*sync.RWMutex)(unsafe.Pointer(f.UnsafeAddr())))
		}
	}
	if len(found) != 1 {
		r.HarnessErr("MultiplexingListener has %d sync.RWMutex fields (expected exactly one): the lock-aware scheduler cannot probe the lock", len(found))
	}
	return found[0]
}

// released must be called by the engine when a goroutine parked at send.pre is released.
func (mm *muxModels) noteRelease(p *kernel.Parked) {
	if l, ok := p.Obj.(*nodenet.MultiplexingListener); ok && p.Point == "ingress.send.pre" {
		mm.m[l].blockedSenders++
	}
}

type muxConn struct {
	net.Conn
	id     int
	closes int
}

func (c *muxConn) Close() error { c.closes++; return nil }

// C18: MultiplexingListener never loses, duplicates or strands connections.
func propC18(r *kernel.Run) {
	tp := r.Tape
	r.Sched.Managed()
	mm := installMuxHooks(r)
	// scheduler bookkeeping for blocked senders: wrap the filter to observe releases
	// (a release is observed through OnRelease below)
	r.Sched.OnRelease = mm.noteRelease

	parent, cancelParent := context.WithCancel(context.Background())
	r.OnClose(cancelParent)
	l, err := nodenet.NewMultiplexingListener(parent, simnet.Addr("mux"))
	if err != nil {
		r.HarnessErr("new mux: %v", err)
	}
	model := func() *muxModel {
		x := mm.m[l]
		if x == nil {
			x = &muxModel{}
			mm.m[l] = x
		}
		return x
	}
	model()

	small := tp.Draw(3) == 0
	kMax, mMax := r.Deep(6, 10), r.Deep(4, 6)
	if small {
		kMax, mMax = 2, 2
	}
	k := tp.Range(0, kMax)
	m := tp.Range(0, mMax)
	nClose := tp.Range(0, 2)
	nCancel := tp.Draw(2)
	lnConns := 0
	useLn := tp.Draw(4) == 0
	if useLn {
		lnConns = tp.Range(1, 3)
	}
	lateAccepts := tp.Draw(3) // accepts started by the driver after a Close completed
	if k+lnConns == 0 && m == 0 {
		k = 1
	}
	shape := fmt.Sprintf("k=%d ln=%d m=%d close=%d cancel=%d late=%d", k, lnConns, m, nClose, nCancel, lateAccepts)

	type connInfo struct {
		c          *muxConn
		ingressed  bool // IngressConn returned
		viaLn      bool // accepted by the library's IngressListener loop (completion not observable)
		returnedBy []string
		ierr       error // the error this connection was ingressed with ("sends a connection and associated error as-is")
	}
	conns := map[*muxConn]*connInfo{}
	var order []*muxConn
	newConn := func() *muxConn {
		c := &muxConn{id: len(order)}
		conns[c] = &connInfo{c: c}
		order = append(order, c)
		return c
	}
	closeStarted, closeDone := 0, 0
	type acceptRes struct {
		name       string
		conn       net.Conn
		err        error
		afterClose bool
	}
	var accepts []acceptRes
	var panics []string

	guard := func(name string, f func()) {
		if p, msg, where := kernel.Guard(f); p {
			panics = append(panics, fmt.Sprintf("%s: %s (%s)", name, msg, where))
		}
	}
	acceptOp := func(name string) func() {
		return func() {
			after := closeDone > 0
			guard(name, func() {
				c, err := l.Accept()
				accepts = append(accepts, acceptRes{name, c, err, after})
				if mc, ok := c.(*muxConn); ok {
					conns[mc].returnedBy = append(conns[mc].returnedBy, name)
				}
			})
		}
	}
	for i := 0; i < k; i++ {
		c := newConn()
		name := fmt.Sprintf("ingress%d", i)
		var ierr error
		if tp.Draw(5) == 0 {
			// the caller passes an error along with the connection: both travel through the listener as they are
			ierr = fmt.Errorf("error ingressed with connection %d", c.id)
			conns[c].ierr = ierr
			r.Count("cfg.ingress_with_error", 1)
		}
		r.Sched.Go(name, "ingress", func() {
			guard(name, func() {
				l.IngressConn(c, ierr)
				conns[c].ingressed = true
			})
		})
	}
	var sl *simnet.Listener
	if useLn {
		sn := simnet.New(r)
		sl = sn.Listen("feed")
		if err := l.IngressListener(lnFeeder{sl, func() net.Conn {
			c := newConn()
			conns[c].viaLn = true // handed to the library by its own accept loop
			return c
		}}); err != nil {
			r.HarnessErr("IngressListener: %v", err)
		}
		for i := 0; i < lnConns; i++ {
			name := fmt.Sprintf("feed%d", i)
			r.Sched.Go(name, "feed", func() { sn.Dial("feed", name) })
		}
		if tp.Draw(2) == 0 {
			// the SOURCE listener is closed (or fails) at some point while the multiplexing listener lives on: connections it
			// delivered earlier are none of its business any more
			r.Sched.Go("feedclose0", "feedclose", func() { sl.Close() })
			r.Count("ops.source_listener_closed_mid_run", 1)
		}
	}
	for i := 0; i < m; i++ {
		name := fmt.Sprintf("accept%d", i)
		r.Sched.Go(name, "accept", acceptOp(name))
	}
	for i := 0; i < nClose; i++ {
		name := fmt.Sprintf("close%d", i)
		r.Sched.Go(name, "close", func() {
			closeStarted++
			guard(name, func() {
				l.Close()
				closeDone++
			})
		})
	}
	if nCancel > 0 {
		r.Sched.Go("cancel0", "cancel", func() {
			cancelParent()
			model().ctxDone = true
		})
	}
	// per-run priorities (PCT-like) so that long overtakes happen
	if tp.Draw(2) == 0 {
		r.Sched.Prio = map[string]int{}
		names := []string{}
		for i := 0; i < k; i++ {
			names = append(names, fmt.Sprintf("ingress%d", i))
		}
		for i := 0; i < m; i++ {
			names = append(names, fmt.Sprintf("accept%d", i))
		}
		for i := 0; i < nClose; i++ {
			names = append(names, fmt.Sprintf("close%d", i))
		}
		names = append(names, "cancel0", "lib0", "lib1")
		for i, p := range tp.Perm(len(names)) {
			r.Sched.Prio[names[i]] = p
		}
	}

	fingerprint := func() {
		x := model()
		var pts []string
		for _, s := range r.Sched.ParkedAt() {
			if i := strings.Index(s, "@"); i >= 0 {
				pts = append(pts, s[i+1:])
			}
		}
		sort.Strings(pts)
		nr, nc := 0, 0
		for _, ci := range conns {
			if len(ci.returnedBy) > 0 {
				nr++
			}
			if ci.c.closes > 0 {
				nc++
			}
		}
		r.StateFP(x.readers, x.writer, x.chanClosed, x.ctxDone, x.blockedSenders, pts, nr, nc)
	}
	checkStep := func() {
		for _, c := range order {
			ci := conns[c]
			if len(ci.returnedBy) > 1 {
				r.Violate("mux-invariant", "duplicated", "connection %d returned by %v (%s)", c.id, ci.returnedBy, shape)
			}
			if len(ci.returnedBy) >= 1 && c.closes > 0 {
				r.Violate("mux-invariant", "returned-and-closed", "connection %d returned by %v and closed %d times (%s)", c.id, ci.returnedBy, c.closes, shape)
			}
		}
		if len(panics) > 0 {
			r.Violate("no-panic", "panic/"+sigOfPanic(panics[0]), "%s (%s)", panics[0], shape)
		}
	}

	steps := 0
	for steps < 3000 {
		if !r.Sched.Step() {
			break
		}
		steps++
		r.Sched.Settle()
		checkStep()
		fingerprint()
	}
	if steps >= 3000 {
		r.HarnessErr("mux run did not quiesce in 3000 steps: %v", r.Sched.ParkedAt())
	}
	// a quiet period (seconds to minutes on the fake clock) and then more traffic: connections ingressed late are
	// subject to the same rules as the early ones
	if tp.Draw(3) == 0 {
		r.Sleep(time.Duration(tp.Range(6, 600)) * time.Second)
		r.Sched.Settle()
		nlate := tp.Range(1, 3)
		for i := 0; i < nlate; i++ {
			c := newConn()
			name := fmt.Sprintf("lateingress%d", i)
			r.Sched.Go(name, "ingress", func() {
				guard(name, func() {
					l.IngressConn(c, nil)
					conns[c].ingressed = true
				})
			})
		}
		if tp.Draw(2) == 0 {
			r.Sched.Go("lateaccept0", "accept", acceptOp("lateaccept0"))
		}
		if tp.Draw(2) == 0 {
			r.Sched.Go("lateclose0", "close", func() {
				closeStarted++
				guard("lateclose0", func() {
					l.Close()
					closeDone++
				})
			})
		}
		r.Count("ops.traffic_after_a_quiet_period", 1)
		for steps < 6000 && r.Sched.Step() {
			steps++
			r.Sched.Settle()
			checkStep()
		}
	}
	// late accepts: started after a Close has completed
	if closeDone > 0 {
		for i := 0; i < lateAccepts; i++ {
			name := fmt.Sprintf("late%d", i)
			r.Sched.Go(name, "accept", acceptOp(name))
		}
		for steps < 6000 && r.Sched.Step() {
			steps++
			r.Sched.Settle()
			checkStep()
		}
	}
	r.Sched.Settle()
	checkStep()

	// end-of-run oracles
	for _, a := range accepts {
		// a connection that was ingressed together with an error is handed out together with exactly that error
		pairOK := false
		if mc, ok := a.conn.(*muxConn); ok && a.err != nil && conns[mc].ierr == a.err {
			pairOK = true
		}
		if mc, ok := a.conn.(*muxConn); ok && a.err == nil && conns[mc].ierr != nil {
			r.Violate("accept-result", "accept-dropped-ingressed-error", "%s returned connection %d without the error it was ingressed with (%s)", a.name, mc.id, shape)
		}
		switch {
		case pairOK:
		case a.err == nil && a.conn == nil:
			r.Violate("accept-result", "accept-nil-nil", "%s returned (nil,nil) (%s)", a.name, shape)
		case a.err != nil && a.err != net.ErrClosed:
			r.Violate("accept-result", "accept-other-error", "%s returned error %v (%s)", a.name, a.err, shape)
		case a.err != nil && a.conn != nil:
			r.Violate("accept-result", "accept-conn-and-error", "%s returned a connection and %v (%s)", a.name, a.err, shape)
		}
		if a.afterClose && a.err != net.ErrClosed {
			r.Violate("accept-after-close", "accept-after-close", "%s started after Close completed returned (%v,%v) (%s)", a.name, a.conn, a.err, shape)
		}
	}
	if closeStarted > 0 {
		// bounded liveness: once a Close was released and nothing else is enabled, every started operation has completed
		var stuck []string
		for _, s := range r.Sched.ParkedAt() {
			if strings.HasPrefix(s, "lib") && strings.Contains(s, "net.accept") {
				continue // the library's IngressListener loop waiting for the next connection of the feed
			}
			stuck = append(stuck, s)
		}
		if r.Sched.Live() > 0 || len(stuck) > 0 {
			r.Violate("stranded", "stranded", "Close was called but operations did not complete: live=%d parked=%v closeDone=%d/%d (%s)", r.Sched.Live(), stuck, closeDone, closeStarted, shape)
		}
		for _, c := range order {
			ci := conns[c]
			if (ci.ingressed || ci.viaLn) && len(ci.returnedBy) == 0 && c.closes == 0 {
				r.Violate("mux-invariant", "lost", "connection %d was ingressed but neither returned nor closed after Close (%s)", c.id, shape)
			}
		}
	}
	for _, c := range order {
		ci := conns[c]
		if ci.ingressed && len(ci.returnedBy) == 0 && c.closes == 0 && r.Sched.Live() == 0 && closeStarted == 0 {
			// ingress completed, so somebody received it: it must have been returned or closed
			r.Violate("mux-invariant", "lost", "connection %d: ingress completed but it was neither returned nor closed (%s)", c.id, shape)
		}
	}
	nontrivial := (k+lnConns) >= 1 && (nClose+nCancel) >= 1 && (k+lnConns+m+nClose+nCancel) >= 3
	if nontrivial {
		r.FP(shape, r.Sched.Hash())
	}
	r.Count("ops.ingress", int64(k+lnConns))
	r.Count("ops.accept", int64(m))
	r.Count("ops.close", int64(nClose))
	r.Count("ops.cancel", int64(nCancel))
	r.Count("ops.late_accept", int64(lateAccepts))
	if r.Index%1000 == 0 {
		r.SetSample(map[string]any{"bag": shape, "steps": steps, "accepts": len(accepts), "closeDone": closeDone})
	}
	if sl != nil {
		sl.Close()
	}
}

type lnFeeder struct {
	*simnet.Listener
	mk func() net.Conn
}

func (f lnFeeder) Accept() (net.Conn, error) {
	_, err := f.Listener.Accept()
	if err != nil {
		return nil, err
	}
	return f.mk(), nil
}

func sigOfPanic(s string) string {
	for _, k := range []string{"send on closed channel", "close of closed channel", "nil pointer", "slice bounds out of range", "index out of range"} {
		if strings.Contains(s, k) {
			return strings.ReplaceAll(k, " ", "-")
		}
	}
	return "other"
}

func init() {
	register(&Prop{ID: "C18", Engine: propC18})
}
