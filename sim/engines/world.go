//go:build verif

package engines

import (
	"context"
	"crypto/ecdh"
	"crypto/ecdsa"
	"crypto/ed25519"
	"crypto/elliptic"
	"crypto/rand"
	"crypto/sha256"
	"crypto/x509"
	"fmt"
	"os"
	"path/filepath"
	"strings"
	"time"

	wrapping "github.com/hashicorp/go-kms-wrapping/v2"
	"github.com/hashicorp/go-kms-wrapping/v2/aead"
	"github.com/hashicorp/nodeenrollment"
	"github.com/hashicorp/nodeenrollment/storage/file"
	"github.com/hashicorp/nodeenrollment/storage/inmem"
	teststore "github.com/hashicorp/nodeenrollment/storage/testing"
	"github.com/hashicorp/nodeenrollment/types"
	"github.com/sethvargo/go-diceware/diceware"
	"golang.org/x/crypto/hkdf"
	"google.golang.org/protobuf/proto"
	"google.golang.org/protobuf/types/known/structpb"
	"google.golang.org/protobuf/types/known/timestamppb"

	"verifsim/kernel"
	"verifsim/simstore"
)

var backends = []string{"inmem", "file", "storeonce"}

// World is one server (or node) side: a real storage back end behind simstore plus wrappers.
type World struct {
	R       *kernel.Run
	Ctx     context.Context
	cancel  context.CancelFunc
	Backend string
	Inner   nodeenrollment.Storage
	St      *simstore.Store
	Storage nodeenrollment.Storage
	SW      wrapping.Wrapper
	RW      wrapping.Wrapper
	// NilOpt: the application builds its option list conditionally and a nil entry comes first (nil options are skipped)
	NilOpt bool
}

func newAead(r *kernel.Run, keyID string) wrapping.Wrapper {
	w := aead.NewWrapper()
	key := make([]byte, 32)
	rand.Read(key)
	if _, err := w.SetConfig(context.Background(), wrapping.WithKeyId(keyID), aead.WithKey(key)); err != nil {
		r.HarnessErr("aead wrapper: %v", err)
	}
	return w
}

func newBackend(r *kernel.Run, kind, name string) nodeenrollment.Storage {
	ctx := context.Background()
	switch kind {
	case "inmem":
		s, err := inmem.New(ctx)
		if err != nil {
			r.HarnessErr("inmem: %v", err)
		}
		return s
	case "storeonce":
		s, err := teststore.New(ctx)
		if err != nil {
			r.HarnessErr("storeonce: %v", err)
		}
		return s
	case "file":
		base := os.Getenv("VERIF_SCRATCH")
		if base == "" {
			base = os.TempDir()
		}
		dir := filepath.Join(base, fmt.Sprintf("fs-%d-%s-%d", r.Index, name, r.NextID()))
		os.RemoveAll(dir)
		s, err := file.New(ctx, file.WithBaseDirectory(dir))
		if err != nil {
			r.HarnessErr("file: %v", err)
		}
		r.OnEnd(func() { os.RemoveAll(dir) })
		return s
	}
	r.HarnessErr("unknown backend %s", kind)
	return nil
}

// reopenBackend models a process restart over the durable state: for the file back end a new Storage value over the same
// directory (whatever the old value kept in memory is gone); the in-memory back ends are their own durable state.
func reopenBackend(r *kernel.Run, st nodeenrollment.Storage) nodeenrollment.Storage {
	fs, ok := st.(*file.Storage)
	if !ok {
		return st
	}
	n, err := file.New(context.Background(), file.WithBaseDirectory(fs.BaseDir()))
	if err != nil {
		r.HarnessErr("re-open file storage: %v", err)
	}
	r.Count("fault.restart_over_durable_state", 1)
	return n
}

// Restart re-opens this side's storage (see reopenBackend).
func (w *World) Restart() {
	w.Inner = reopenBackend(w.R, w.Inner)
	w.St.Inner = w.Inner
}

// NewWorld builds a side with the given back end; storage wrapper optional; nodeIdLoader wraps simstore's own LoadByNodeId.
func NewWorld(r *kernel.Run, name, backend string, storageWrapper, nodeIdLoader bool) *World {
	w := &World{R: r, Backend: backend}
	w.Inner = newBackend(r, backend, name)
	w.St = simstore.New(r, name, w.Inner)
	w.Storage = w.St
	if nodeIdLoader {
		w.Storage = w.St.WithNodeIdLoader()
	}
	if storageWrapper {
		w.SW = newAead(r, name+"-storage")
	}
	w.NewCtx()
	w.St.Cancel = func() { w.cancel() }
	r.OnClose(func() { w.cancel() })
	return w
}

// NewCtx gives the world a fresh context (after a ctx-cancel fault).
func (w *World) NewCtx() {
	if w.cancel != nil {
		w.cancel()
	}
	w.Ctx, w.cancel = context.WithCancel(context.Background())
}

// Opts returns the options this side passes to the library.
func (w *World) Opts(extra ...nodeenrollment.Option) []nodeenrollment.Option {
	var o []nodeenrollment.Option
	if w.NilOpt {
		o = append(o, nil)
	}
	if w.SW != nil {
		o = append(o, nodeenrollment.WithStorageWrapper(w.SW))
	}
	if w.RW != nil {
		o = append(o, nodeenrollment.WithRegistrationWrapper(w.RW))
	}
	return append(o, extra...)
}

// Ident is a key holder owned by the harness (so that it can sign anything).
type Ident struct {
	Name    string
	Priv    ed25519.PrivateKey
	Pub     ed25519.PublicKey
	Pkix    []byte
	KeyId   string
	EncPriv *ecdh.PrivateKey
	EncPub  []byte
	Nonce   []byte
}

// keyID recomputes the library's key ID from PKIX bytes (hkdf-sha256 keyed by the key -> diceware words).
var keyIDCache = map[string]string{}

func keyID(pkix []byte) string {
	if v, ok := keyIDCache[string(pkix)]; ok {
		return v
	}
	v := keyIDSlow(pkix)
	if len(keyIDCache) > 4096 {
		keyIDCache = map[string]string{}
	}
	keyIDCache[string(pkix)] = v
	return v
}

func keyIDSlow(pkix []byte) string {
	rd := hkdf.New(sha256.New, pkix, pkix, pkix)
	gen, _ := diceware.NewGenerator(&diceware.GeneratorInput{RandReader: rd})
	words, err := gen.Generate(8)
	if err != nil {
		return "?"
	}
	return strings.Join(words, "-")
}

func NewIdent(name string) *Ident {
	pub, priv, _ := ed25519.GenerateKey(rand.Reader)
	pkix, _ := x509.MarshalPKIXPublicKey(pub)
	ep, _ := ecdh.X25519().GenerateKey(rand.Reader)
	nonce := make([]byte, nodeenrollment.NonceSize)
	rand.Read(nonce)
	return &Ident{Name: name, Priv: priv, Pub: pub, Pkix: pkix, KeyId: keyID(pkix), EncPriv: ep, EncPub: ep.PublicKey().Bytes(), Nonce: nonce}
}

// Creds renders the identity as library NodeCredentials (pre-enrollment).
func (id *Ident) Creds() *types.NodeCredentials {
	pk, _ := x509.MarshalPKCS8PrivateKey(id.Priv)
	return &types.NodeCredentials{
		Id:                         string(nodeenrollment.CurrentId),
		CertificatePublicKeyPkix:   id.Pkix,
		CertificatePrivateKeyPkcs8: pk,
		CertificatePrivateKeyType:  types.KEYTYPE_ED25519,
		EncryptionPrivateKeyBytes:  id.EncPriv.Bytes(),
		EncryptionPrivateKeyType:   types.KEYTYPE_X25519,
		RegistrationNonce:          id.Nonce,
	}
}

// ReqSpec describes a fetch request to assemble; the signer is always the holder of Cert's private key.
type ReqSpec struct {
	Cert      *Ident
	EncPub    []byte
	Nonce     []byte
	NotBefore time.Time
	NotAfter  time.Time
	Wrapped   []byte
	PrevPkix  []byte
	Rewrapped []byte
	RewrapKey string
	// fields of the signed bundle that the library fills in or caches itself, but which a remote node can populate too
	Id     string
	Cached *types.WrappingRegistrationFlowInfo
}

func BuildFetch(sp ReqSpec) (*types.FetchNodeCredentialsRequest, *types.FetchNodeCredentialsInfo) {
	info := &types.FetchNodeCredentialsInfo{
		CertificatePublicKeyPkix:         sp.Cert.Pkix,
		CertificatePublicKeyType:         types.KEYTYPE_ED25519,
		PreviousCertificatePublicKeyPkix: sp.PrevPkix,
		Nonce:                            sp.Nonce,
		EncryptionPublicKeyBytes:         sp.EncPub,
		EncryptionPublicKeyType:          types.KEYTYPE_X25519,
		NotBefore:                        timestamppb.New(sp.NotBefore),
		NotAfter:                         timestamppb.New(sp.NotAfter),
		WrappedRegistrationInfo:          sp.Wrapped,
		Id:                               sp.Id,
		WrappingRegistrationFlowInfo:     sp.Cached,
	}
	b, _ := proto.Marshal(info)
	return &types.FetchNodeCredentialsRequest{
		Bundle:                                b,
		BundleSignature:                       ed25519.Sign(sp.Cert.Priv, b),
		RewrappedWrappingRegistrationFlowInfo: sp.Rewrapped,
		RewrappingKeyId:                       sp.RewrapKey,
	}, info
}

// HonestSpec is what an honest node would send now.
func HonestSpec(id *Ident) ReqSpec {
	now := time.Now()
	return ReqSpec{Cert: id, EncPub: id.EncPub, Nonce: id.Nonce, NotBefore: now, NotAfter: now.Add(24 * time.Hour)}
}

// WrapRegInfo seals registration info for (nonce, cert key) with a registration wrapper.
func WrapRegInfo(r *kernel.Run, w wrapping.Wrapper, nonce, pkix []byte, params *structpb.Struct) []byte {
	ri := &types.WrappingRegistrationFlowInfo{CertificatePublicKeyPkix: pkix, Nonce: nonce, ApplicationSpecificParams: params}
	b, _ := proto.Marshal(ri)
	blob, err := w.Encrypt(context.Background(), b)
	if err != nil {
		r.HarnessErr("wrap reg info: %v", err)
	}
	out, _ := proto.Marshal(blob)
	return out
}

// x25519Shared computes the shared secret independently of the library.
func x25519Shared(priv *ecdh.PrivateKey, pub []byte) []byte {
	pk, err := ecdh.X25519().NewPublicKey(pub)
	if err != nil {
		return nil
	}
	out, err := priv.ECDH(pk)
	if err != nil {
		return nil
	}
	return out
}

func mkStruct(r *kernel.Run, kind int) *structpb.Struct {
	var m map[string]any
	switch kind {
	case 0:
		return nil
	case 1:
		m = map[string]any{}
	case 2:
		m = map[string]any{"k": fmt.Sprintf("v%d", r.Tape.Draw(1000)), "n": float64(r.Tape.Draw(100))}
	default:
		m = map[string]any{"nested": map[string]any{"list": []any{"a", float64(r.Tape.Draw(9)), true, nil}, "uni": "héllo ✓"}, "id": fmt.Sprintf("x%d", r.Tape.Draw(100000))}
	}
	s, err := structpb.NewStruct(m)
	if err != nil {
		r.HarnessErr("struct: %v", err)
	}
	return s
}

func shortErr(err error) string {
	if err == nil {
		return "ok"
	}
	s := err.Error()
	if len(s) > 160 {
		s = s[:160]
	}
	return s
}

func signWith(id *Ident, b []byte) []byte { return ed25519.Sign(id.Priv, b) }

func mustStruct(b []byte) *structpb.Struct {
	s := new(structpb.Struct)
	_ = proto.Unmarshal(b, s)
	return s
}

var contextBG = context.Background()

func ecdhKey(priv []byte) (*ecdh.PrivateKey, error) { return ecdh.X25519().NewPrivateKey(priv) }

// identFromCreds rebuilds a harness identity from library node credentials (the harness owns every private key).
func identFromCreds(c *types.NodeCredentials) *Ident {
	k, err := x509.ParsePKCS8PrivateKey(c.CertificatePrivateKeyPkcs8)
	if err != nil {
		return nil
	}
	priv := k.(ed25519.PrivateKey)
	ep, _ := ecdh.X25519().NewPrivateKey(c.EncryptionPrivateKeyBytes)
	return &Ident{Name: "node", Priv: priv, Pub: priv.Public().(ed25519.PublicKey), Pkix: c.CertificatePublicKeyPkix, KeyId: keyID(c.CertificatePublicKeyPkix), EncPriv: ep, EncPub: ep.PublicKey().Bytes(), Nonce: c.RegistrationNonce}
}

// detMarshal marshals with deterministic map ordering: Struct fields are a proto map, whose wire order Go randomises
// per call, and the harness must not let byte-level faults depend on that.
func detMarshal(m proto.Message) []byte {
	b, _ := proto.MarshalOptions{Deterministic: true}.Marshal(m)
	return b
}

// foreignAlgorithmPkix returns a well-formed PKIX public key that is not Ed25519 (X25519 or ECDSA P-256).
func foreignAlgorithmPkix(which int) []byte {
	if which == 0 {
		k, _ := ecdh.X25519().GenerateKey(rand.Reader)
		b, _ := x509.MarshalPKIXPublicKey(k.PublicKey())
		return b
	}
	k, _ := ecdsa.GenerateKey(elliptic.P256(), rand.Reader)
	b, _ := x509.MarshalPKIXPublicKey(&k.PublicKey)
	return b
}
