//go:build verif

// Package engines holds one simulated workload + oracle set per property.
package engines

import "verifsim/kernel"

// Prop is one registered property check.
type Prop struct {
	ID      string
	Engine  kernel.Engine
	MinRuns int    // runs 0..MinRuns-1 are an enumeration that must complete regardless of budget
	Note    string // real/stub table etc.
}

var registry = map[string]*Prop{}

func register(p *Prop) { registry[p.ID] = p }
