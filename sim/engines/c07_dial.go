//go:build verif

package engines

import (
	"bytes"
	"context"
	"crypto/ed25519"
	"crypto/rand"
	"crypto/tls"
	"crypto/x509"
	"encoding/base64"
	"errors"
	"fmt"
	"net"
	"strings"
	"time"

	"github.com/hashicorp/nodeenrollment"
	"github.com/hashicorp/nodeenrollment/protocol"
	"github.com/hashicorp/nodeenrollment/registration"
	"github.com/hashicorp/nodeenrollment/rotation"
	nodetls "github.com/hashicorp/nodeenrollment/tls"
	"github.com/hashicorp/nodeenrollment/types"
	"google.golang.org/protobuf/types/known/structpb"

	"verifsim/kernel"
	"verifsim/simnet"
)

// checkDialedPeer is the safety half of C07: whatever Dial returned a connection to must hold a root the node trusts
// and must have embedded this connection's nonce.
func checkDialedPeer(r *kernel.Run, where string, conn net.Conn, creds *types.NodeCredentials, hello []string) {
	tc, ok := conn.(*tls.Conn)
	if !ok {
		r.Violate("dial-peer", "dial-returned-non-tls", "%s: %T", where, conn)
	}
	cs := tc.ConnectionState()
	if len(cs.PeerCertificates) == 0 {
		r.Violate("dial-peer", "no-peer-certificate", "%s", where)
	}
	leaf := cs.PeerCertificates[0]
	now := time.Now()
	trusted := false
	for _, b := range creds.CertificateBundles {
		ca, err := x509.ParseCertificate(b.CaCertificateDer)
		if err != nil {
			continue
		}
		if leaf.CheckSignatureFrom(ca) == nil && !now.Before(leaf.NotBefore) && !now.After(leaf.NotAfter) {
			trusted = true
		}
	}
	if !trusted {
		r.Violate("dial-peer", "connected-to-untrusted-root", "%s: Dial completed a handshake with a peer whose certificate does not chain to a root in the node's stored credentials", where)
	}
	req := authRequestFromALPN(hello)
	if req == nil || len(req.Nonce) == 0 {
		r.HarnessErr("%s: cannot extract the nonce from the captured ClientHello", where)
	}
	if nonceLooksDegenerate(req.Nonce) {
		r.Violate("dial-peer", "connection-nonce-not-fresh", "%s: the nonce sent for this connection is %x - not %d bytes from the random source", where, req.Nonce, nodeenrollment.NonceSize)
	}
	want := base64.RawStdEncoding.EncodeToString(req.Nonce)
	found := false
	for _, n := range leaf.DNSNames {
		if n == want {
			found = true
		}
	}
	if !found {
		r.Violate("dial-peer", "connected-without-fresh-nonce", "%s: peer certificate does not embed this connection's nonce", where)
	}
}

// nonceLooksDegenerate: wrong length, or a tail of zero bytes that a working random source produces with probability 2^-128
func nonceLooksDegenerate(n []byte) bool {
	if len(n) != nodeenrollment.NonceSize {
		return true
	}
	for _, b := range n[len(n)-16:] {
		if b != 0 {
			return false
		}
	}
	return true
}

// shortReader is a legal io.Reader that delivers at most max bytes per call (an application-supplied random source such
// as a rate-limited hardware generator); the bytes themselves are good randomness.
type shortReader struct{ max int }

func (s *shortReader) Read(p []byte) (int, error) {
	if len(p) > s.max {
		p = p[:s.max]
	}
	return rand.Read(p)
}

// nodeHasUsableChain: is some stored chain valid now and issued by a root the server currently holds (current/next, valid)?
func nodeHasUsableChain(srv *World, creds *types.NodeCredentials) bool {
	now := time.Now()
	for _, b := range creds.CertificateBundles {
		leaf, err := x509.ParseCertificate(b.CertificateDer)
		if err != nil {
			continue
		}
		if serverTrusts(srv, leaf, now) {
			return true
		}
	}
	return false
}

var honestAddrs = []string{"server:9202", "server", "/var/run/boundary/worker.sock", "/tmp/ne:123/s.sock", "/run/cluster:9202", "10.0.0.7:9202", "[fd00::7]:9202", "some.host.example.com:443"}

// C07: a node connects only to a holder of a trusted root, and always to its own server.
func propC07(r *kernel.Run) {
	tp := r.Tape
	srv := NewWorld(r, "server", Pick2(tp, "inmem", "storeonce", "file"), tp.Draw(2) == 0, tp.Draw(3) == 0)
	rotate := func() {
		if _, err := rotation.RotateRootCertificates(srv.Ctx, srv.Storage, srv.Opts()...); err != nil {
			r.HarnessErr("roots: %v", err)
		}
	}
	rotate()
	// the listener's options may carry clock skews (they widen the validity window of fetch requests): zero or tiny
	// not-after skews and zero / negative not-before skews are all legal and change nothing for an honest node
	var skewOpts []nodeenrollment.Option
	switch tp.Draw(5) {
	case 0:
		skewOpts = append(skewOpts, nodeenrollment.WithNotAfterClockSkew(0))
	case 1:
		skewOpts = append(skewOpts, nodeenrollment.WithNotAfterClockSkew(time.Duration(tp.Range(1, 1000))), nodeenrollment.WithNotBeforeClockSkew(0))
	case 2:
		skewOpts = append(skewOpts, nodeenrollment.WithNotAfterClockSkew(time.Hour), nodeenrollment.WithNotBeforeClockSkew(-time.Minute))
	}
	w := NewWire(r, srv, nil, srv.Opts(skewOpts...))
	w.Net.Frag = tp.Draw(3) == 0
	w.StartAcceptor("acceptor")
	nodeW := NewWorld(r, "node", Pick2(tp, "inmem", "file"), tp.Draw(2) == 0, false)
	mode := Pick2(tp, "history", "history", "rogue", "rogue", "pending")
	r.Count("cfg.mode."+mode, 1)
	var hist []string

	dial := func(addr string, opts ...nodeenrollment.Option) (*dialRes, []*acceptRes) {
		res := w.DialHonest(fmt.Sprintf("d%d", r.NextID()), nodeW, addr, opts...)
		w.Quiesce()
		if !res.done {
			r.Violate("dial-returns", "dial-stuck", "Dial did not return; parked=%v", r.Sched.ParkedAt())
		}
		acc := w.Take()
		for _, a := range acc {
			if a.panicMsg != "" {
				r.Violate("no-panic", "accept-panic/"+a.panicSite, "%s", a.panicMsg)
			}
		}
		return res, acc
	}
	finish := func(res *dialRes, acc []*acceptRes) {
		for _, a := range acc {
			if a.raw != nil {
				a.raw.Close()
			}
		}
		if res.conn != nil {
			res.conn.Close()
		}
		w.Quiesce()
		w.Take()
	}
	drawHonestOpts := func() ([]nodeenrollment.Option, string, bool) {
		var opts []nodeenrollment.Option
		stateKind := Pick2(tp, "absent", "small", "nested", "large", "large")
		var st *structpb.Struct
		fits := true
		switch stateKind {
		case "small":
			st = mkStruct(r, 2)
		case "nested":
			st = mkStruct(r, 3)
		case "large":
			st = bigStruct(r, tp.Range(12000, 30000))
		}
		if st != nil {
			opts = append(opts, nodeenrollment.WithState(st))
		}
		ex := drawExtras(tp)
		if ex != nil {
			opts = append(opts, nodeenrollment.WithExtraAlpnProtos(ex))
		}
		return opts, fmt.Sprintf("state=%s extras=%d", stateKind, len(ex)), fits
	}

	switch mode {
	case "history":
		creds, _ := enrollStored(r, srv, nodeW, nil, "")
		n := tp.Range(3, r.Deep(9, 25))
		for i := 0; i < n; i++ {
			if tp.Draw(2) == 0 {
				d := tp.DurLog(time.Hour, 12*24*time.Hour)
				r.Sleep(d)
				if tp.Draw(4) == 0 {
					// nobody rotates (server down, operator asleep): roots simply age
					hist = append(hist, "sleep "+d.Round(time.Minute).String()+" without rotation")
					r.Count("fault.clock_jump_without_rotation", 1)
					continue
				}
				rotate()
				hist = append(hist, "sleep "+d.Round(time.Minute).String()+"+rotate")
				r.Count("ops.clock_jump_and_rotate", 1)
				continue
			}
			expect := nodeHasUsableChain(srv, creds)
			addr := honestAddrs[tp.Draw(len(honestAddrs))]
			opts, od, _ := drawHonestOpts()
			if tp.Draw(8) == 0 {
				// node-side fault: the application's random source delivers fewer bytes per call than asked for. The node may
				// refuse to connect (it does: no liveness is expected then), but whatever it sends must carry a full nonce
				sr := &shortReader{max: tp.Range(1, nodeenrollment.NonceSize-1)}
				opts = append(opts, nodeenrollment.WithRandomReader(sr))
				od += fmt.Sprintf(" random-source-short-reads=%d", sr.max)
				expect = false
				r.Count("fault.short_reads_from_random_source", 1)
			}
			res, acc := dial(addr, opts...)
			if res.hello != nil {
				if req := authRequestFromALPN(res.hello); req != nil && nonceLooksDegenerate(req.Nonce) {
					r.Violate("dial-peer", "connection-nonce-not-fresh", "the node sent the nonce %x (%s)", req.Nonce, od)
				}
			}
			desc := fmt.Sprintf("addr=%q %s nodeWrapper=%v usableChain=%v", addr, od, nodeW.SW != nil, expect)
			hist = append(hist, desc+" -> "+shortErr(res.err))
			r.Count("ops.honest_dial", 1)
			r.Count("cases", 1)
			if res.err == nil {
				checkDialedPeer(r, desc, res.conn, creds, res.hello)
				authed := false
				for _, a := range acc {
					if a.err == nil && strings.HasPrefix(a.negotiated, nodeenrollment.AuthenticateNodeNextProtoV1Prefix) {
						authed = true
					}
				}
				if !authed {
					r.Violate("own-server", "dial-ok-but-server-did-not-authenticate", "%s", desc)
				}
			} else if expect {
				r.Violate("own-server", "registered-node-cannot-connect/"+stateClassOf(od), "a registered node with credentials inside their validity could not connect to its own server: %s: %v", desc, shortErr(res.err))
			}
			finish(res, acc)
			r.FP("history", addrClass(addr), od, expect, res.err == nil, nodeW.SW != nil)
		}
	case "pending":
		flow := Pick2(tp, "operator", "operator", "token", "wrapper")
		if tp.Draw(4) == 0 {
			// the server's current root ages out while nobody rotates; its next root is still valid and takes over
			d := nodeenrollment.DefaultCertificateLifetime + time.Duration(tp.Range(1, 6*24))*time.Hour
			r.Sleep(d)
			hist = append(hist, "sleep "+d.String()+" without rotation")
			r.Count("fault.clock_jump_without_rotation", 1)
		}
		var dopts []nodeenrollment.Option
		var nopts []nodeenrollment.Option
		switch flow {
		case "token":
			_, tok, err := registration.CreateServerLedActivationToken(srv.Ctx, srv.Storage, &types.ServerLedRegistrationRequest{}, srv.Opts()...)
			if err != nil {
				r.HarnessErr("token: %v", err)
			}
			dopts = append(dopts, nodeenrollment.WithActivationToken(tok))
			if tp.Draw(2) == 0 {
				nopts = dopts // token known when the credentials are created; otherwise only handed to Dial
			}
		case "wrapper":
			rw := newAead(r, "registration")
			srv.RW = rw
			// the listener options are fixed at creation: rebuild it with the registration wrapper
			w.Ln.Close()
			w.Quiesce()
			w.Take()
			w = NewWire(r, srv, nil, srv.Opts(skewOpts...))
			w.StartAcceptor("acceptor2")
			dopts = append(dopts, nodeenrollment.WithRegistrationWrapper(rw))
		}
		c0, err := types.NewNodeCredentials(nodeW.Ctx, nodeW.Storage, nodeW.Opts(nopts...)...)
		if err != nil {
			r.HarnessErr("new creds: %v", err)
		}
		addr := honestAddrs[tp.Draw(len(honestAddrs))]
		if flow == "operator" {
			res, acc := dial(addr, dopts...)
			r.Count("ops.pending_dial", 1)
			if res.err == nil || !errors.Is(res.err, nodeenrollment.ErrNotAuthorized) {
				r.Violate("pending", "pending-dial-wrong-error", "dial of an unauthorized node returned %v, want the not-authorized error", shortErr(res.err))
			}
			st, lerr := types.LoadNodeCredentials(contextBG, nodeW.Inner, nodeenrollment.CurrentId, nodeW.Opts()...)
			if lerr != nil || len(st.CertificateBundles) != 0 || !bytes.Equal(st.CertificatePublicKeyPkix, c0.CertificatePublicKeyPkix) {
				r.Violate("pending", "pending-dial-changed-storage", "after a not-authorized dial the node stores %d chains (err %v)", lenBundles(st), lerr)
			}
			for _, a := range acc {
				if a.err == nil {
					r.Violate("pending", "pending-dial-yielded-connection", "the server returned a connection (%q) for an unauthorized fetch", a.negotiated)
				}
			}
			finish(res, acc)
			if tp.Draw(2) == 0 {
				r.Sleep(tp.DurLog(time.Second, 20*time.Hour))
			}
			// the operator authorizes the node's (re-created) request
			req, err := st.CreateFetchNodeCredentialsRequest(contextBG)
			if err != nil {
				r.HarnessErr("create request: %v", err)
			}
			if _, err := registration.AuthorizeNode(srv.Ctx, srv.Storage, req, srv.Opts()...); err != nil {
				r.Violate("pending", "authorize-failed", "%v", err)
			}
		}
		opts, od, _ := drawHonestOpts()
		if tp.Draw(3) == 0 {
			// man in the middle after the fetch: the first connection of this Dial (the credential fetch) reaches the real
			// server, every later one (the authenticated handshakes of the same call) reaches a rogue with foreign roots
			rl := w.Net.Listen("mitm:9202")
			r.Sched.Go("mitm", "rogue", func() {
				for {
					c, err := rl.Accept()
					if err != nil {
						return
					}
					cfg := &tls.Config{MinVersion: tls.VersionTLS13,
						GetConfigForClient: func(h *tls.ClientHelloInfo) (*tls.Config, error) {
							var nonce []byte
							if req := authRequestFromALPN(h.SupportedProtos); req != nil {
								nonce = req.Nonce
							}
							_, caKey, _ := ed25519.GenerateKey(rand.Reader)
							caDer := mintLeaf(nil, caKey, caKey.Public().(ed25519.PublicKey), []byte("ca"), "rogue-ca", x509.ExtKeyUsageServerAuth, time.Now().Add(-time.Hour), time.Now().Add(time.Hour))
							ca, _ := x509.ParseCertificate(caDer)
							_, lk, _ := ed25519.GenerateKey(rand.Reader)
							names := []string{"rogue"}
							if tp.Draw(2) == 0 && nonce != nil {
								names = append(names, base64.RawStdEncoding.EncodeToString(nonce))
							}
							leaf := mintLeafNames(ca, caKey, lk.Public().(ed25519.PublicKey), names)
							out := &tls.Config{MinVersion: tls.VersionTLS13, Certificates: []tls.Certificate{{Certificate: [][]byte{leaf, caDer}, PrivateKey: lk}}, NextProtos: h.SupportedProtos[:1]}
							if tp.Draw(2) == 0 {
								// ask for a client certificate and advertise the real roots' names (public information)
								out.ClientAuth = tls.RequestClientCert
								out.ClientCAs = x509.NewCertPool()
								if roots, err := types.LoadRootCertificates(contextBG, srv.Inner, srv.Opts()...); err == nil {
									for _, rc := range []*types.RootCertificate{roots.Current, roots.Next} {
										if c, err := x509.ParseCertificate(rc.CertificateDer); err == nil {
											out.ClientCAs.AddCert(c)
										}
									}
								}
							}
							return out, nil
						}}
					tls.Server(c, cfg).HandshakeContext(context.Background())
				}
			})
			nconn := 0
			real := w.Addr
			net0 := w.Net
			protocol.SimDial = func(ctx context.Context, network, addr string) (net.Conn, error) {
				nconn++
				target := "mitm:9202"
				if nconn == 1 {
					target = real
				}
				c, err := net0.Dial(target, r.Sched.Name())
				if err != nil {
					return nil, err
				}
				c.Capture = true
				return c, nil
			}
			res, acc := dial(addr, append(dopts, opts...)...)
			desc := fmt.Sprintf("flow=%s mitm-after-fetch %s", flow, od)
			r.Count("fault.rogue_server.mitm_after_fetch", 1)
			r.Count("cases", 1)
			if res.err == nil {
				st, _ := types.LoadNodeCredentials(contextBG, nodeW.Inner, nodeenrollment.CurrentId, nodeW.Opts()...)
				if st != nil {
					checkDialedPeer(r, desc, res.conn, st, res.hello)
				}
				r.Violate("dial-peer", "connected-to-rogue/mitm-after-fetch", "Dial fetched credentials from its server and then completed the authenticated handshake with a foreign-root peer (%s)", desc)
			}
			finish(res, acc)
			rl.Close()
			hist = append(hist, desc+" -> "+shortErr(res.err))
			r.FP("pending-mitm", flow, od, res.err == nil)
			break
		}
		res, acc := dial(addr, append(dopts, opts...)...)
		desc := fmt.Sprintf("flow=%s addr=%q %s", flow, addr, od)
		r.Count("ops.first_dial_after_authorization", 1)
		r.Count("cases", 1)
		if res.err != nil {
			r.Violate("pending", "authorized-node-cannot-connect/"+stateClassOf(od), "%s: %v", desc, shortErr(res.err))
		}
		st, lerr := types.LoadNodeCredentials(contextBG, nodeW.Inner, nodeenrollment.CurrentId, nodeW.Opts()...)
		if lerr != nil || len(st.CertificateBundles) != 2 || !bytes.Equal(st.CertificatePublicKeyPkix, c0.CertificatePublicKeyPkix) {
			r.Violate("pending", "not-same-key-after-authorization", "%s: stored credentials after the successful dial: chains=%d sameKey=%v err=%v", desc, lenBundles(st), st != nil && bytes.Equal(st.CertificatePublicKeyPkix, c0.CertificatePublicKeyPkix), lerr)
		}
		checkDialedPeer(r, desc, res.conn, st, res.hello)
		finish(res, acc)
		hist = append(hist, desc)
		r.FP("pending", flow, addrClass(addr), od)
	case "rogue":
		creds, _ := enrollStored(r, srv, nodeW, nil, "")
		victimW := NewWorld(r, "othernode", "inmem", false, false)
		ocreds, oid := enrollStored(r, srv, victimW, nil, "")
		rl := w.Net.Listen("rogue:9202")
		kind := Pick2(tp, "foreign-roots", "stale-nonce", "nonce-omitted", "client-auth-leaf", "preference-ignored", "legit-relay", "selects-fetch-like-extra", "genuine-chain-behind-own-leaf")
		r.Count("fault.rogue_server."+kind, 1)
		noClientCert := tp.Draw(3) == 0
		// the rogue answers every connection it gets
		r.Sched.Go("rogue", "rogue", func() {
			for {
				c, err := rl.Accept()
				if err != nil {
					return
				}
				cfg := &tls.Config{MinVersion: tls.VersionTLS13, ClientAuth: tls.RequestClientCert,
					GetConfigForClient: func(h *tls.ClientHelloInfo) (*tls.Config, error) {
						req := authRequestFromALPN(h.SupportedProtos)
						var nonce []byte
						if req != nil {
							nonce = req.Nonce
						}
						var cert tls.Certificate
						pick := 0
						mint := func(n []byte) {
							resp, err := nodetls.GenerateServerCertificates(contextBG, srv.Inner, &types.GenerateServerCertificatesRequest{CertificatePublicKeyPkix: creds.CertificatePublicKeyPkix, Nonce: n, SkipVerification: true}, srv.Opts()...)
							if err != nil {
								return
							}
							k, _ := x509.ParsePKCS8PrivateKey(resp.CertificatePrivateKeyPkcs8)
							b := resp.CertificateBundles[pick]
							cert = tls.Certificate{Certificate: [][]byte{b.CertificateDer, b.CaCertificateDer}, PrivateKey: k}
						}
						switch kind {
						case "foreign-roots", "selects-fetch-like-extra":
							_, caKey, _ := ed25519.GenerateKey(rand.Reader)
							caDer := mintLeaf(nil, caKey, caKey.Public().(ed25519.PublicKey), []byte("ca"), "rogue-ca", x509.ExtKeyUsageServerAuth, time.Now().Add(-time.Hour), time.Now().Add(time.Hour))
							ca, _ := x509.ParseCertificate(caDer)
							_, lk, _ := ed25519.GenerateKey(rand.Reader)
							tm := mintLeafNames(ca, caKey, lk.Public().(ed25519.PublicKey), []string{"rogue", base64.RawStdEncoding.EncodeToString(nonce)})
							cert = tls.Certificate{Certificate: [][]byte{tm, caDer}, PrivateKey: lk}
						case "stale-nonce":
							other := make([]byte, 32)
							rand.Read(other)
							mint(other) // certificate/key legitimately minted by the real roots - for a different connection
						case "nonce-omitted":
							mint(nil)
						case "client-auth-leaf":
							// a registered node's own client certificate used as server certificate
							b := ocreds.CertificateBundles[0]
							cert = tls.Certificate{Certificate: [][]byte{b.CertificateDer, b.CaCertificateDer}, PrivateKey: oid.Priv}
						case "preference-ignored":
							pick = 1 // always serve the chain of the next root, whatever the client prefers
							mint(nonce)
						case "legit-relay":
							mint(nonce) // an intermediate hop that asks the real server for a certificate with this nonce
						case "genuine-chain-behind-own-leaf":
							// the rogue has SEEN a genuine certificate for this nonce (it relayed the node's ClientHello to the real
							// server and hung up) but holds no key for it: it proves possession of its own self-signed leaf and
							// appends the observed genuine leaf and CA to the chain it sends
							mint(nonce)
							observed := cert.Certificate
							_, ownKey, _ := ed25519.GenerateKey(rand.Reader)
							own := mintLeaf(nil, ownKey, ownKey.Public().(ed25519.PublicKey), []byte("own"), "rogue", x509.ExtKeyUsageServerAuth, time.Now().Add(-time.Hour), time.Now().Add(time.Hour))
							cert = tls.Certificate{Certificate: append([][]byte{own}, observed...), PrivateKey: ownKey}
						}
						// the acceptable-CA list a server advertises is public information (the real roots' names)
						pool := x509.NewCertPool()
						if roots, err := types.LoadRootCertificates(contextBG, srv.Inner, srv.Opts()...); err == nil {
							for _, rc := range []*types.RootCertificate{roots.Current, roots.Next} {
								if ca, err := x509.ParseCertificate(rc.CertificateDer); err == nil {
									pool.AddCert(ca)
								}
							}
						}
						out := &tls.Config{MinVersion: tls.VersionTLS13, ClientAuth: tls.RequestClientCert, ClientCAs: pool, Certificates: []tls.Certificate{cert}, NextProtos: h.SupportedProtos[:1]}
						if kind == "selects-fetch-like-extra" {
							// the rogue picks, of the protocols the node offered, the application's extra one that looks like a
							// credential-fetch entry (which protocol is negotiated is the server's choice)
							for _, p := range h.SupportedProtos {
								if strings.HasPrefix(p, nodeenrollment.FetchNodeCredsNextProtoV1Prefix) {
									out.NextProtos = []string{p}
								}
							}
						}
						if noClientCert {
							out.ClientAuth, out.ClientCAs = tls.NoClientCert, nil
						}
						return out, nil
					}}
				tc := tls.Server(c, cfg)
				tc.HandshakeContext(context.Background())
				// keep the connection open; the harness closes it
			}
		})
		// route the node's dials to the rogue
		protocol.SimDial = func(ctx context.Context, network, addr string) (net.Conn, error) {
			c, err := w.Net.Dial("rogue:9202", r.Sched.Name())
			if err != nil {
				return nil, err
			}
			c.Capture = true
			return c, nil
		}
		opts, od, _ := drawHonestOpts()
		if kind == "selects-fetch-like-extra" {
			// extra protocols are the application's business; this one happens to start like a library entry
			opts = append(opts, nodeenrollment.WithExtraAlpnProtos([]string{"h2", nodeenrollment.FetchNodeCredsNextProtoV1Prefix + "application-defined"}))
			od += " extras=fetch-like"
		}
		res, acc := dial("rogue-host:9202", opts...)
		desc := fmt.Sprintf("rogue=%s %s", kind, od)
		r.Count("cases", 1)
		r.Count("ops.dial_to_rogue", 1)
		if res.err == nil {
			checkDialedPeer(r, desc, res.conn, creds, res.hello)
			if kind != "legit-relay" && kind != "preference-ignored" {
				r.Violate("dial-peer", "connected-to-rogue/"+kind, "Dial completed a handshake with a rogue server (%s)", desc)
			}
			r.Count("probe.relay_accepted", 1)
		} else if kind == "legit-relay" && !strings.Contains(od, "state=large") {
			r.Violate("own-server", "relay-with-correct-certificate-rejected", "a peer presenting a certificate of the node's trusted roots with the fresh nonce was rejected: %v", shortErr(res.err))
		}
		hist = append(hist, desc+" -> "+shortErr(res.err))
		finish(res, acc)
		rl.Close()
		w.Net.CloseAll()
		r.FP("rogue", kind, od, res.err == nil)
	}
	if r.Index%150 == 0 {
		if len(hist) > 10 {
			hist = hist[:10]
		}
		r.SetSample(map[string]any{"mode": mode, "history": hist, "node_storage_wrapper": nodeW.SW != nil})
	}
}

func mintLeafNames(ca *x509.Certificate, caKey ed25519.PrivateKey, pub ed25519.PublicKey, names []string) []byte {
	der := mintLeaf(ca, caKey, pub, []byte("leaf"), names[0], x509.ExtKeyUsageServerAuth, time.Now().Add(-time.Hour), time.Now().Add(time.Hour))
	c, _ := x509.ParseCertificate(der)
	// re-mint with the DNS names wanted
	tmpl := &x509.Certificate{SerialNumber: c.SerialNumber, Subject: c.Subject, DNSNames: names, NotBefore: c.NotBefore, NotAfter: c.NotAfter, KeyUsage: c.KeyUsage, ExtKeyUsage: c.ExtKeyUsage, SubjectKeyId: c.SubjectKeyId, AuthorityKeyId: ca.SubjectKeyId}
	out, _ := x509.CreateCertificate(rand.Reader, tmpl, ca, pub, caKey)
	return out
}

func lenBundles(c *types.NodeCredentials) int {
	if c == nil {
		return -1
	}
	return len(c.CertificateBundles)
}

func addrClass(a string) string {
	switch {
	case strings.HasPrefix(a, "/"):
		return "unix"
	case strings.Contains(a, ":"):
		return "host:port"
	}
	return "bare-host"
}

func stateClassOf(od string) string {
	for _, k := range []string{"absent", "small", "nested", "large"} {
		if strings.Contains(od, "state="+k) {
			return "state-" + k
		}
	}
	return "state-?"
}

var _ = simnet.ErrReset

func init() {
	register(&Prop{ID: "C07", Engine: propC07})
}
