//go:build verif

package engines

import (
	"crypto/ed25519"
	"crypto/rand"
	"crypto/tls"
	"encoding/base64"
	"fmt"
	"strings"

	"github.com/hashicorp/nodeenrollment"
	"github.com/hashicorp/nodeenrollment/rotation"
	nodetls "github.com/hashicorp/nodeenrollment/tls"
	"github.com/hashicorp/nodeenrollment/types"
	"google.golang.org/protobuf/proto"
	"google.golang.org/protobuf/types/known/structpb"

	"verifsim/kernel"
)

func bigStruct(r *kernel.Run, approxBytes int) *structpb.Struct {
	m := map[string]any{}
	i := 0
	for sz := 0; sz < approxBytes; i++ {
		chunk := 200 + r.Tape.Draw(300)
		b := make([]byte, chunk/2)
		rand.Read(b)
		m[fmt.Sprintf("k%04d", i)] = fmt.Sprintf("%x", b)
		sz += chunk + 10
	}
	s, err := structpb.NewStruct(m)
	if err != nil {
		r.HarnessErr("struct: %v", err)
	}
	return s
}

var nearMissProtos = []string{"v1-nodee-fetch-node-creds-lookalike", "myapp+v1-nodee-certificate-preference-hint", "h2", "http/1.1", "boundary-worker", "V1-NODEE-AUTHENTICATE-NODE-00-AAAA", "v1-nodee-authenticate-nod", "xv1-nodee-authenticate-node-", "v1-nodee-", "v1_nodee_fetch_node_creds_", "v1-nodee-certificate-preferenc", "__AUTH__", "__UNAUTH__", "é-proto", "a"}

func drawExtras(tp *kernel.Tape) []string {
	switch tp.Draw(6) {
	case 0:
		return nil
	case 1:
		return []string{nearMissProtos[tp.Draw(len(nearMissProtos))]}
	case 2: // duplicates
		p := nearMissProtos[tp.Draw(len(nearMissProtos))]
		return []string{p, "x", p}
	default:
		n := tp.Range(2, 8)
		var out []string
		for i := 0; i < n; i++ {
			out = append(out, nearMissProtos[tp.Draw(len(nearMissProtos))])
		}
		return out
	}
}

// C16: connection metadata given to the application is exactly what the node sent.
func propC16(r *kernel.Run) {
	tp := r.Tape
	loader := tp.Draw(2) == 0
	srv := NewWorld(r, "server", Pick2(tp, "inmem", "storeonce"), tp.Draw(2) == 0, loader)
	if _, err := rotation.RotateRootCertificates(srv.Ctx, srv.Storage, srv.Opts()...); err != nil {
		r.HarnessErr("roots: %v", err)
	}
	// the application's listener options may themselves carry WithState / WithExtraAlpnProtos (they are handed to the
	// fetch flow, where WithState is the state recorded on authorization); per-connection metadata must not pick them up
	lopts := srv.Opts()
	if tp.Draw(3) == 0 {
		lopts = append(lopts, nodeenrollment.WithState(mkStruct(r, 2)))
		r.Count("cfg.listener_options_with_state", 1)
	}
	if tp.Draw(4) == 0 {
		lopts = append(lopts, nodeenrollment.WithExtraAlpnProtos([]string{"listener-level-proto"}))
		r.Count("cfg.listener_options_with_extra_protos", 1)
	}
	w := NewWire(r, srv, nil, lopts)
	w.Net.Frag = tp.Draw(3) == 0
	w.StartAcceptor("acceptor")
	nodeW := NewWorld(r, "node", "inmem", tp.Draw(2) == 0, false)
	nodeID := ""
	if loader {
		nodeID = "nid-16"
	}
	creds, id := enrollStored(r, srv, nodeW, nil, nodeID)
	ncon := tp.Range(2, r.Deep(6, 16))
	for ci := 0; ci < ncon; ci++ {
		if tp.Draw(4) == 0 {
			c16Adversary(r, tp, w, creds, id, nodeID)
			continue
		}
		stateKind := Pick2(tp, "absent", "empty", "flat", "nested", "medium", "deep")
		var st *structpb.Struct
		switch stateKind {
		case "empty":
			st = &structpb.Struct{}
		case "flat":
			st = mkStruct(r, 2)
		case "nested":
			st = mkStruct(r, 3)
		case "deep":
			// nesting far deeper than anything flat: application state is the application's business
			depth := tp.Range(6, 40)
			leaf := map[string]any{"leaf": float64(tp.Draw(1000))}
			cur := leaf
			for d := 0; d < depth; d++ {
				cur = map[string]any{"n": cur, "l": []any{float64(d)}}
			}
			var err error
			if st, err = structpb.NewStruct(cur); err != nil {
				r.HarnessErr("deep struct: %v", err)
			}
		case "medium":
			st = bigStruct(r, tp.Range(1000, 12000)) // stays below 100 ALPN chunks (larger payloads are C07's honest-configuration clause)
		}
		extras := drawExtras(tp)
		if tp.Draw(5) == 0 {
			c16CustomConfig(r, tp, w, creds, extras)
			continue
		}
		opts := []nodeenrollment.Option{}
		if st != nil {
			opts = append(opts, nodeenrollment.WithState(st))
		}
		if extras != nil {
			opts = append(opts, nodeenrollment.WithExtraAlpnProtos(extras))
		}
		res := w.DialHonest(fmt.Sprintf("h%d", r.NextID()), nodeW, w.Addr, opts...)
		w.Quiesce()
		acc := w.Take()
		desc := fmt.Sprintf("state=%s extras=%q", stateKind, extras)
		r.Count("cases", 1)
		r.Count("ops.honest_dial", 1)
		if res.err != nil {
			r.Violate("honest-connects", "honest-dial-failed", "%s: %v", desc, shortErr(res.err))
		}
		var conn *acceptRes
		for _, a := range acc {
			if a.panicMsg != "" {
				r.Violate("no-panic", "accept-panic/"+a.panicSite, "%s", a.panicMsg)
			}
			if a.err == nil && strings.HasPrefix(a.negotiated, nodeenrollment.AuthenticateNodeNextProtoV1Prefix) {
				conn = a
			}
		}
		if conn == nil || conn.conn == nil {
			r.Violate("honest-connects", "no-authenticated-connection", "%s: %s", desc, describeAccepts(acc))
		}
		// client state
		got := conn.conn.ClientState()
		switch {
		case st == nil || len(st.Fields) == 0:
			// an empty struct marshals to zero bytes and is indistinguishable from "none" on the wire
			if got != nil && len(got.Fields) != 0 {
				r.Violate("client-state", "state-invented", "%s: application sees state %v although none was supplied", desc, got)
			}
		default:
			if !proto.Equal(got, st) {
				r.Violate("client-state", "state-differs", "%s: application sees a client state different from the one the node supplied (got nil=%v)", desc, got == nil)
			}
		}
		// protocol list: exactly the ClientHello's ALPN list, in order, minus certificate-preference entries
		want := withoutCertPref(res.hello)
		gotP := conn.conn.ClientNextProtos()
		if !equalStrings(gotP, want) {
			r.Violate("client-protos", "protocol-list-differs/"+protoDiffClass(gotP, want), "%s: ClientNextProtos()=%q (len %d), ClientHello offered (minus certificate preference) %q (len %d)", desc, truncList(gotP), len(gotP), truncList(want), len(want))
		}
		// the auth entries + extras are what the node handed to Dial
		if len(want) < len(extras) {
			r.Violate("client-protos", "extras-not-offered-in-order", "%s: the node handed %d extra protocols to Dial, the ClientHello offers only %d entries in all: %q", desc, len(extras), len(want), truncList(want))
		}
		tail := want[len(want)-len(extras):]
		if !equalStrings(tail, extras) {
			r.Violate("client-protos", "extras-not-offered-in-order", "%s: ClientHello tail %q", desc, tail)
		}
		// the returned list is a copy
		if len(gotP) > 0 {
			gotP[0] = "MUTATED-BY-APPLICATION"
			gotP = append(gotP[:0], "x")
			again := conn.conn.ClientNextProtos()
			if !equalStrings(again, want) {
				r.Violate("client-protos", "protocol-list-not-a-copy", "%s: modifying the returned list changed the connection's list to %q", desc, truncList(again))
			}
		}
		conn.raw.Close()
		if res.conn != nil {
			res.conn.Close()
		}
		w.Quiesce()
		w.Take()
		r.FP(stateKind, extras, nodeW.SW != nil, w.Net.Frag, loader)
		if ci == 0 && r.Index%200 == 0 {
			r.SetSample(map[string]any{"client_state": stateKind, "extra_alpn": extras, "client_hello_alpn_entries": len(res.hello), "client_next_protos": truncList(conn.conn.ClientNextProtos())})
		}
	}
}

// c16CustomConfig: an application that takes the client configurations from tls.ClientConfigs (documented as
// modifiable) and appends its own protocols AFTER the certificate-preference entry.
func c16CustomConfig(r *kernel.Run, tp *kernel.Tape, w *Wire, creds *types.NodeCredentials, extras []string) {
	cfgs, err := nodetls.ClientConfigs(contextBG, creds, nodeenrollment.WithExtraAlpnProtos(extras), nodeenrollment.WithServerName("server"))
	if err != nil || len(cfgs) == 0 {
		r.Violate("honest-connects", "no-client-config", "%v", err)
	}
	cfg := cfgs[0]
	tail := []string{"app-proto-after-selector", "h2", "app-proto-after-selector"}[:tp.Range(1, 3)]
	where := "after the certificate preference"
	switch tp.Draw(3) {
	case 0:
		cfg.NextProtos = append(append([]string{}, cfg.NextProtos...), tail...)
	case 1: // the application lists its own protocols first
		cfg.NextProtos = append(append([]string{}, tail...), cfg.NextProtos...)
		where = "before the request entries"
	default: // ... or on both sides
		cfg.NextProtos = append(append([]string{"grpc-exp"}, cfg.NextProtos...), tail...)
		where = "around the request entries"
	}
	res := w.rawClient(fmt.Sprintf("custom%d", r.NextID()), cfg)
	w.Quiesce()
	acc := w.Take()
	r.Count("cases", 1)
	r.Count("ops.custom_config_dial", 1)
	if res.err != nil {
		r.Violate("honest-connects", "honest-dial-failed", "client built from ClientConfigs with its own protocols %s: %v", where, shortErr(res.err))
	}
	want := withoutCertPref(res.hello)
	for _, a := range acc {
		if a.panicMsg != "" {
			r.Violate("no-panic", "accept-panic/"+a.panicSite, "%s", a.panicMsg)
		}
		if a.err == nil && a.conn != nil && strings.HasPrefix(a.negotiated, nodeenrollment.AuthenticateNodeNextProtoV1Prefix) {
			if got := a.conn.ClientNextProtos(); !equalStrings(got, want) {
				r.Violate("client-protos", "protocol-list-differs/"+protoDiffClass(got, want), "client offering its own protocols %s: ClientNextProtos()=%q, offered (minus preference) %q", where, truncList(got), truncList(want))
			}
		}
		if a.raw != nil {
			a.raw.Close()
		}
	}
	if res.conn != nil {
		res.conn.Close()
	}
	w.Quiesce()
	w.Take()
	r.FP("custom-config", extras, tail, where)
}

// c16Adversary: a registered key holder sends client state that is unsigned or carries a forged signature.
func c16Adversary(r *kernel.Run, tp *kernel.Tape, w *Wire, creds *types.NodeCredentials, id *Ident, nodeID string) {
	nonce := make([]byte, 32)
	rand.Read(nonce)
	sb := detMarshal(mkStruct(r, 2))
	req := &types.GenerateServerCertificatesRequest{CertificatePublicKeyPkix: id.Pkix, Nonce: nonce, NonceSignature: ed25519.Sign(id.Priv, nonce), ClientState: sb}
	kind := Pick2(tp, "unsigned", "forged", "signed-by-other-key", "unsigned+skip", "forged+skip")
	switch {
	case strings.HasPrefix(kind, "forged"):
		req.ClientStateSignature = tp.Bytes(64)
	case kind == "signed-by-other-key":
		_, k, _ := ed25519.GenerateKey(rand.Reader)
		req.ClientStateSignature = ed25519.Sign(k, sb)
	}
	req.SkipVerification = strings.HasSuffix(kind, "+skip")
	if nodeID != "" && tp.Draw(2) == 0 {
		req.NodeId = nodeID // lookup by node ID instead of key ID
		kind += "/via-node-id"
	}
	rb, _ := proto.Marshal(req)
	alpn := chunkALPN(nodeenrollment.AuthenticateNodeNextProtoV1Prefix, base64.RawStdEncoding.EncodeToString(rb))
	b := creds.CertificateBundles[0]
	cfg := &tls.Config{NextProtos: alpn, InsecureSkipVerify: true, MinVersion: tls.VersionTLS13, ServerName: "server",
		GetClientCertificate: func(*tls.CertificateRequestInfo) (*tls.Certificate, error) {
			return &tls.Certificate{Certificate: [][]byte{b.CertificateDer, b.CaCertificateDer}, PrivateKey: id.Priv}, nil
		}}
	res := w.rawClient(fmt.Sprintf("adv%d", r.NextID()), cfg)
	w.Quiesce()
	for _, a := range w.Take() {
		if a.panicMsg != "" {
			r.Violate("no-panic", "accept-panic/"+a.panicSite, "%s", a.panicMsg)
		}
		if a.err == nil && a.conn != nil && strings.HasPrefix(a.negotiated, nodeenrollment.AuthenticateNodeNextProtoV1Prefix) {
			if a.conn.ClientState() != nil {
				r.Violate("client-state", "unverified-state-exposed/"+strings.TrimSuffix(strings.TrimSuffix(kind, "/via-node-id"), "+skip"), "client state whose signature is %s was delivered to the application", kind)
			}
			r.Violate("client-state", "connection-with-unverified-state", "a connection carrying client state with %s signature was authenticated", kind)
		}
		if a.raw != nil {
			a.raw.Close()
		}
	}
	if res.conn != nil {
		res.conn.Close()
	}
	w.Quiesce()
	w.Take()
	r.Count("cases", 1)
	r.Count("ops.adversarial_connection", 1)
	r.FP("adversary", kind)
}

func equalStrings(a, b []string) bool {
	if len(a) != len(b) {
		return false
	}
	for i := range a {
		if a[i] != b[i] {
			return false
		}
	}
	return true
}

func truncList(l []string) []string {
	var out []string
	for i, s := range l {
		if i >= 6 {
			out = append(out, fmt.Sprintf("...(%d more)", len(l)-i))
			break
		}
		if len(s) > 40 {
			s = s[:40] + "..."
		}
		out = append(out, s)
	}
	return out
}

func protoDiffClass(got, want []string) string {
	switch {
	case len(got) > len(want) && len(got) > 0 && got[0] == "":
		return "leading-empty-entries"
	case len(got) > len(want):
		return "extra-entries"
	case len(got) < len(want):
		return "missing-entries"
	}
	return "different-entries"
}

func extrasClass(ex []string) string {
	dup := false
	seen := map[string]bool{}
	near := false
	for _, e := range ex {
		if seen[e] {
			dup = true
		}
		seen[e] = true
		if strings.Contains(strings.ToLower(e), "nodee") {
			near = true
		}
	}
	return fmt.Sprintf("dup=%v near=%v", dup, near)
}

func init() {
	register(&Prop{ID: "C16", Engine: propC16})
}
