//go:build verif

package engines

import (
	"bytes"
	"crypto/x509"
	"fmt"
	"strings"
	"time"

	"github.com/hashicorp/nodeenrollment"
	"github.com/hashicorp/nodeenrollment/registration"
	"github.com/hashicorp/nodeenrollment/rotation"
	nodetls "github.com/hashicorp/nodeenrollment/tls"
	"github.com/hashicorp/nodeenrollment/types"

	"verifsim/kernel"
)

type trackedRoot struct {
	key       []byte
	nb, na    time.Time
	successor *trackedRoot
	n         int
}

// certResolution: x509 validity has one-second resolution, so certificate windows can end up to a second
// before the root record's nanosecond-precise NotAfter. The cadence bound is taken with this allowance.
const certResolution = 2 * time.Second

// C09: trust is continuous across root rotation histories.
func propC09(r *kernel.Run) {
	tp := r.Tape
	backend := backends[tp.Draw(3)]
	w := NewWorld(r, "server", backend, tp.Draw(2) == 1, false)
	var cfg rootCfg
	if tp.Draw(5) == 0 {
		cfg = rootCfg{nodeenrollment.DefaultCertificateLifetime, nodeenrollment.DefaultNotBeforeClockSkewDuration, nodeenrollment.DefaultNotAfterClockSkewDuration}
	} else {
		cfg.L = tp.DurLog(time.Minute, 10*365*24*time.Hour)
		if tp.Draw(3) != 0 {
			cfg.nb = -tp.DurLog(time.Second, cfg.L/4+time.Second)
		}
		if tp.Draw(3) != 0 {
			cfg.na = tp.DurLog(time.Second, cfg.L/4+time.Second)
		}
	}
	S := cfg.L + cfg.na - cfg.nb
	// server cadence bound R < S
	var R time.Duration
	switch tp.Draw(4) {
	case 0:
		R = S / 2
	case 1:
		R = S - S/50 - time.Duration(tp.Draw(1000))
	default:
		R = time.Duration(float64(S) * (0.02 + 0.9*float64(tp.Draw(1000))/1000))
	}
	if R <= 0 {
		R = 1
	}
	N := (S-R)/2 + cfg.nb - certResolution // nb is non-positive: (S-R)/2 - |nb|
	if N <= time.Second {
		// the statement's node bound is not positive for this configuration: nothing to check
		r.Discard()
		r.Count("probe.discarded_no_positive_node_bound", 1)
		return
	}
	if tp.Draw(2) == 0 {
		// the server also accepts the registration-wrapper flow
		w.RW = newAead(r, "registration")
	}
	opts := w.Opts(cfg.opts()...)
	// the certificate lifetime is an option of root rotation; an application may well pass it there only
	eopts := opts
	if tp.Draw(2) == 0 {
		eopts = w.Opts(nodeenrollment.WithNotBeforeClockSkew(cfg.nb), nodeenrollment.WithNotAfterClockSkew(cfg.na))
		r.Count("cfg.lifetime_option_passed_to_root_rotation_only", 1)
	}
	nNodes := tp.Range(1, 3)
	type cnode struct {
		name   string
		id     *Ident
		creds  *types.NodeCredentials
		gen    int
		nextAt time.Time
	}
	start := time.Now()
	var nodes []*cnode
	for i := 0; i < nNodes; i++ {
		nodes = append(nodes, &cnode{name: fmt.Sprintf("node%d", i), nextAt: start.Add(time.Duration(tp.Int63() % int64(2*S)))})
	}
	roots := map[string]*trackedRoot{}
	var stored *types.RootCertificates
	nroots := 0
	rotate := func() {
		before := stored
		got, err := rotation.RotateRootCertificates(w.Ctx, w.Storage, opts...)
		if err != nil {
			r.Violate("rotate-succeeds", "rotate-failed", "root rotation failed on fault-free storage: %v", err)
		}
		r.Count("ops.rotate_roots", 1)
		stored = got
		for _, rc := range []*types.RootCertificate{got.Current, got.Next} {
			if roots[string(rc.PublicKeyPkix)] == nil {
				roots[string(rc.PublicKeyPkix)] = &trackedRoot{key: rc.PublicKeyPkix, nb: rc.NotBefore.AsTime(), na: rc.NotAfter.AsTime(), n: nroots}
				nroots++
			}
		}
		if before != nil {
			changed := !bytes.Equal(before.Current.PublicKeyPkix, got.Current.PublicKeyPkix) || !bytes.Equal(before.Next.PublicKeyPkix, got.Next.PublicKeyPkix)
			if changed {
				r.Count("probe.root_set_changed", 1)
				if !bytes.Equal(got.Current.PublicKeyPkix, before.Next.PublicKeyPkix) {
					r.Violate("never-reset", "trust-reset", "root set changed but the new current is not the previous next (rotation interval bound R=%v < span S=%v; now=%v prev cur=[%v,%v] prev next=[%v,%v])",
						R, S, time.Since(start), before.Current.NotBefore.AsTime().Sub(start), before.Current.NotAfter.AsTime().Sub(start), before.Next.NotBefore.AsTime().Sub(start), before.Next.NotAfter.AsTime().Sub(start))
				}
			}
		}
		// the successor of whatever is current is the root minted to follow it
		if cur := roots[string(got.Current.PublicKeyPkix)]; cur.successor == nil || !bytes.Equal(cur.successor.key, got.Next.PublicKeyPkix) {
			cur.successor = roots[string(got.Next.PublicKeyPkix)]
		}
	}
	enrollNode := func(n *cnode) {
		id := NewIdent(fmt.Sprintf("%s-g%d", n.name, n.gen))
		viaRotate := n.creds != nil && tp.Draw(2) == 0
		// registration-wrapper flow: authorization happens at fetch time, so a node may also simply fetch again with the
		// key it already has (where the back end can overwrite a record at all - the store-once test back end cannot)
		viaWrapper := !viaRotate && w.RW != nil && tp.Draw(2) == 0
		if viaWrapper && n.id != nil && backend != "storeonce" && tp.Draw(2) == 0 {
			id = n.id
			r.Count("ops.refetch_same_key_wrapper_flow", 1)
		}
		var resp *types.FetchNodeCredentialsResponse
		sp := HonestSpec(id)
		if viaWrapper {
			sp.Wrapped = WrapRegInfo(r, w.RW, id.Nonce, id.Pkix, nil)
		}
		req, _ := BuildFetch(sp)
		if viaWrapper {
			var err error
			resp, err = registration.FetchNodeCredentials(w.Ctx, w.Storage, req, eopts...)
			if err != nil || len(resp.EncryptedNodeCredentials) == 0 {
				r.Violate("reenroll", "fetch-failed", "wrapper-flow fetch: %v", err)
			}
			r.Count("ops.enroll_wrapper_flow", 1)
		} else if viaRotate {
			payload, err := nodeenrollment.EncryptMessage(w.Ctx, req, n.creds)
			if err != nil {
				r.HarnessErr("encrypt: %v", err)
			}
			rr, err := rotation.RotateNodeCredentials(w.Ctx, w.Storage, &types.RotateNodeCredentialsRequest{CertificatePublicKeyPkix: n.creds.CertificatePublicKeyPkix, EncryptedFetchNodeCredentialsRequest: payload}, eopts...)
			if err != nil {
				r.Violate("reenroll", "node-rotation-failed", "honest node credential rotation failed: %v", err)
			}
			resp = new(types.FetchNodeCredentialsResponse)
			if err := nodeenrollment.DecryptMessage(w.Ctx, rr.EncryptedFetchNodeCredentialsResponse, n.creds, resp); err != nil {
				r.Violate("reenroll", "node-rotation-reply-unreadable", "%v", err)
			}
			r.Count("ops.rotate_node_credentials", 1)
		} else {
			if _, err := registration.AuthorizeNode(w.Ctx, w.Storage, req, eopts...); err != nil {
				r.Violate("reenroll", "authorize-failed", "%v", err)
			}
			var err error
			resp, err = registration.FetchNodeCredentials(w.Ctx, w.Storage, req, eopts...)
			if err != nil || len(resp.EncryptedNodeCredentials) == 0 {
				r.Violate("reenroll", "fetch-failed", "%v", err)
			}
			r.Count("ops.enroll", 1)
		}
		creds, err := id.Creds().HandleFetchNodeCredentialsResponse(w.Ctx, w.Storage, resp, nodeenrollment.WithSkipStorage(true))
		if err != nil {
			r.Violate("reenroll", "handle-failed", "%v", err)
		}
		n.creds = creds
		n.id = id
		n.gen++
	}
	var realDial func(n *cnode, at string)
	probe := func(at string) {
		now := time.Now()
		r.Count("oracle.probes", 1)
		inSet := func(k []byte) bool {
			return bytes.Equal(k, stored.Current.PublicKeyPkix) || bytes.Equal(k, stored.Next.PublicKeyPkix)
		}
		// each root stays trusted from its creation as next until its successor has become valid
		for _, tr := range roots {
			if inSet(tr.key) {
				continue
			}
			if tr.successor == nil || tr.successor.nb.After(now) {
				r.Violate("root-stays-trusted", "root-dropped-early", "root #%d [%v,%v] is no longer stored at %v although its successor has not become valid (%s)", tr.n, tr.nb.Sub(start), tr.na.Sub(start), now.Sub(start), at)
			}
		}
		for _, n := range nodes {
			if n.creds == nil {
				continue
			}
			ok := false
			var detail []string
			for _, b := range n.creds.CertificateBundles {
				leaf, err1 := x509.ParseCertificate(b.CertificateDer)
				ca, err2 := x509.ParseCertificate(b.CaCertificateDer)
				if err1 != nil || err2 != nil {
					r.Violate("node-has-valid-chain", "unparseable-bundle", "%v %v", err1, err2)
				}
				caKey, _ := x509.MarshalPKIXPublicKey(ca.PublicKey)
				valid := !now.Before(leaf.NotBefore) && !now.After(leaf.NotAfter)
				trusted := inSet(caKey)
				detail = append(detail, fmt.Sprintf("chain[%v,%v] valid=%v trusted=%v", leaf.NotBefore.Sub(start), leaf.NotAfter.Sub(start), valid, trusted))
				if valid && trusted {
					ok = true
				}
			}
			if !ok {
				r.Violate("node-has-valid-chain", "no-valid-trusted-chain", "%s (generation %d) holds no chain that is valid and issued by a currently trusted root at %v (%s): %v; L=%v nb=%v na=%v R=%v N=%v; stored cur=[%v,%v] next=[%v,%v]",
					n.name, n.gen, now.Sub(start), at, detail, cfg.L, cfg.nb, cfg.na, R, N,
					stored.Current.NotBefore.AsTime().Sub(start), stored.Current.NotAfter.AsTime().Sub(start), stored.Next.NotBefore.AsTime().Sub(start), stored.Next.NotAfter.AsTime().Sub(start))
			}
			// the library's own client configuration agrees: at least one config, naming a stored root
			cfgs, err := nodetls.ClientConfigs(w.Ctx, n.creds)
			if err != nil || len(cfgs) == 0 {
				r.Violate("node-has-valid-chain", "no-client-config", "ClientConfigs yields nothing for %s at %v: %v", n.name, now.Sub(start), err)
			}
			named := false
			for _, c := range cfgs {
				for _, p := range c.NextProtos {
					if strings.HasPrefix(p, nodeenrollment.CertificatePreferenceV1Prefix) {
						pref := strings.TrimPrefix(p, nodeenrollment.CertificatePreferenceV1Prefix)
						if pref == keyID(stored.Current.PublicKeyPkix) || pref == keyID(stored.Next.PublicKeyPkix) {
							named = true
						}
					}
				}
			}
			if !named {
				r.Violate("node-has-valid-chain", "client-config-names-no-stored-root", "no client config of %s prefers a root the server stores at %v", n.name, now.Sub(start))
			}
			if tp.Draw(40) == 0 {
				realDial(n, at)
			}
		}
	}

	// sampled real handshakes: the node's current credentials are put into a node storage and protocol.Dial runs
	// against the real listener on simnet at the probe instant (second-scale and year-scale lifetimes alike)
	wire := NewWire(r, w, nil, opts)
	wire.StartAcceptor("acceptor")
	wire.Quiesce()
	realDial = func(n *cnode, at string) {
		nw := NewWorld(r, fmt.Sprintf("%s-store%d", n.name, r.NextID()), "inmem", false, false)
		if err := n.creds.Store(nw.Ctx, nw.Storage); err != nil {
			r.HarnessErr("store node creds: %v", err)
		}
		res := wire.DialHonest(fmt.Sprintf("dial%d", r.NextID()), nw, wire.Addr)
		wire.Quiesce()
		acc := wire.Take()
		r.Count("oracle.real_handshakes", 1)
		authed := false
		for _, a := range acc {
			if a.panicMsg != "" {
				r.Violate("no-panic", "accept-panic/"+a.panicSite, "%s", a.panicMsg)
			}
			if a.err == nil && strings.HasPrefix(a.negotiated, nodeenrollment.AuthenticateNodeNextProtoV1Prefix) {
				authed = true
			}
			if a.raw != nil {
				a.raw.Close()
			}
		}
		if res.err != nil || !authed {
			r.Violate("node-has-valid-chain", "real-handshake-failed", "%s (generation %d) could not authenticate to its server at %v (%s) although it holds a valid chain of a trusted root: dial error %v, server authenticated=%v", n.name, n.gen, time.Since(start), at, shortErr(res.err), authed)
		}
		if res.conn != nil {
			res.conn.Close()
		}
		wire.Quiesce()
		wire.Take()
	}
	rotate()
	nextRot := start.Add(1 + time.Duration(tp.Int63()%int64(R)))
	nev := tp.Range(30, r.Deep(200, 600))
	for ev := 0; ev < nev; ev++ {
		// next event
		who := -1
		at := nextRot
		for i, n := range nodes {
			if n.nextAt.Before(at) {
				at, who = n.nextAt, i
			}
		}
		// probe just before, at and just after the event instant
		if d := time.Until(at) - 1; d > 0 {
			r.Sleep(d)
			probe("1ns before an event")
		}
		if d := time.Until(at); d > 0 {
			r.Sleep(d)
		}
		probe("at an event, before it runs")
		if who < 0 {
			rotate()
			var iv time.Duration
			switch tp.Draw(4) {
			case 0:
				iv = R // at the bound
			case 1:
				iv = R - time.Duration(tp.Draw(3))
			default:
				iv = 1 + time.Duration(tp.Int63()%int64(R))
			}
			if iv <= 0 {
				iv = 1
			}
			nextRot = time.Now().Add(iv)
		} else {
			enrollNode(nodes[who])
			var iv time.Duration
			switch tp.Draw(4) {
			case 0:
				iv = N
			case 1:
				iv = N - time.Duration(tp.Draw(3))
			default:
				iv = 1 + time.Duration(tp.Int63()%int64(N))
			}
			if iv <= 0 {
				iv = 1
			}
			nodes[who].nextAt = time.Now().Add(iv)
		}
		probe("right after an event")
		r.Sleep(1)
		probe("1ns after an event")
		// an extra probe at a random instant before the next event
		if tp.Draw(3) == 0 {
			nx := nextRot
			for _, n := range nodes {
				if n.nextAt.Before(nx) {
					nx = n.nextAt
				}
			}
			if d := time.Until(nx); d > 2 {
				r.Sleep(time.Duration(tp.Int63() % int64(d-1)))
				probe("between events")
			}
		}
	}
	r.FP(fmt.Sprintf("%v|%v|%v|%v", cfg.L, cfg.nb, cfg.na, R), nNodes, nev, backend)
	r.StateFP(nroots, nNodes)
	r.Count("cases", 1)
	if r.Index%100 == 0 {
		r.SetSample(map[string]any{"lifetime": cfg.L.String(), "not_before_skew": cfg.nb.String(), "not_after_skew": cfg.na.String(), "span_S": S.String(), "server_interval_bound_R": R.String(),
			"node_interval_bound_N": N.String(), "nodes": nNodes, "events": nev, "roots_seen": nroots, "simulated": time.Since(start).String()})
	}
}

func init() {
	register(&Prop{ID: "C09", Engine: propC09})
}
