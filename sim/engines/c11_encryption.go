//go:build verif

package engines

import (
	"bytes"
	"crypto/ecdh"
	"crypto/rand"
	"fmt"

	wrapping "github.com/hashicorp/go-kms-wrapping/v2"
	"github.com/hashicorp/nodeenrollment"
	"github.com/hashicorp/nodeenrollment/types"
	"google.golang.org/protobuf/encoding/protowire"
	"google.golang.org/protobuf/proto"
	"google.golang.org/protobuf/types/known/structpb"
	"google.golang.org/protobuf/types/known/timestamppb"

	"verifsim/kernel"
)

// epochKeys is one generation of key material of a (node, server) pair.
type epochKeys struct {
	n       int
	nodeEnc *ecdh.PrivateKey
	srvEnc  *ecdh.PrivateKey
	pkix    []byte
}

func (e *epochKeys) creds() *types.NodeCredentials {
	return &types.NodeCredentials{
		CertificatePublicKeyPkix:       e.pkix,
		EncryptionPrivateKeyBytes:      e.nodeEnc.Bytes(),
		EncryptionPrivateKeyType:       types.KEYTYPE_X25519,
		ServerEncryptionPublicKeyBytes: e.srvEnc.PublicKey().Bytes(),
		ServerEncryptionPublicKeyType:  types.KEYTYPE_X25519,
	}
}

func (e *epochKeys) info() *types.NodeInformation {
	return &types.NodeInformation{
		Id:                              keyID(e.pkix),
		CertificatePublicKeyPkix:        e.pkix,
		ServerEncryptionPrivateKeyBytes: e.srvEnc.Bytes(),
		ServerEncryptionPrivateKeyType:  types.KEYTYPE_X25519,
		EncryptionPublicKeyBytes:        e.nodeEnc.PublicKey().Bytes(),
		EncryptionPublicKeyType:         types.KEYTYPE_X25519,
	}
}

func (e *epochKeys) secret() []byte { return x25519Shared(e.nodeEnc, e.srvEnc.PublicKey().Bytes()) }

// side is one party's key state: a current epoch and an optionally recorded previous one.
type side struct {
	isNode bool
	cur    *epochKeys
	prev   *epochKeys
}

func (s *side) producer(r *kernel.Run) nodeenrollment.X25519KeyProducer {
	if s.isNode {
		c := s.cur.creds()
		if s.prev != nil {
			if err := c.SetPreviousEncryptionKey(s.prev.creds()); err != nil {
				r.HarnessErr("SetPreviousEncryptionKey: %v", err)
			}
		}
		return c
	}
	i := s.cur.info()
	if s.prev != nil {
		if err := i.SetPreviousEncryptionKey(s.prev.info()); err != nil {
			r.HarnessErr("SetPreviousEncryptionKey: %v", err)
		}
	}
	return i
}

// blankID wraps a key producer and reports an empty key ID for the current and/or previous key: an application-level
// producer without IDs, or a previous key persisted without its key ID.
type blankID struct {
	inner               nodeenrollment.X25519KeyProducer
	blankCur, blankPrev bool
}

func (b blankID) X25519EncryptionKey() (string, []byte, error) {
	id, k, err := b.inner.X25519EncryptionKey()
	if b.blankCur {
		id = ""
	}
	return id, k, err
}

func (b blankID) PreviousX25519EncryptionKey() (string, []byte, error) {
	id, k, err := b.inner.PreviousX25519EncryptionKey()
	if b.blankPrev {
		id = ""
	}
	return id, k, err
}

func sameEpochKey(a, b *epochKeys) bool {
	return a != nil && b != nil && bytes.Equal(a.secret(), b.secret()) && bytes.Equal(a.pkix, b.pkix)
}

func randomMessage(r *kernel.Run) proto.Message {
	m := randomMessage0(r)
	if r.Tape.Draw(8) == 0 {
		// a peer built from a newer schema: fields this build does not know travel along and come back out
		m.ProtoReflect().SetUnknown(protowire.AppendVarint(protowire.AppendTag(nil, protowire.Number(1000+r.Tape.Draw(50)), protowire.VarintType), uint64(r.Tape.Draw(1<<20))))
	}
	return m
}

func randomMessage0(r *kernel.Run) proto.Message {
	tp := r.Tape
	rb := func(n int) []byte { b := make([]byte, n); rand.Read(b); return b }
	switch tp.Draw(8) {
	case 7:
		// all-default content: marshals to zero bytes, the shortest valid ciphertext
		return []proto.Message{&types.FetchNodeCredentialsResponse{}, &types.NodeCredentials{}, &structpb.Struct{}, &types.RotateNodeCredentialsResponse{}}[tp.Draw(4)]
	case 0:
		return &types.FetchNodeCredentialsRequest{Bundle: rb(tp.Range(1, 300)), BundleSignature: rb(64)}
	case 1:
		return &types.FetchNodeCredentialsResponse{EncryptedNodeCredentials: rb(tp.Range(0, 600)), ServerEncryptionPublicKeyBytes: rb(32), ServerEncryptionPublicKeyType: types.KEYTYPE_X25519}
	case 2:
		return &types.NodeCredentials{Id: "current", RegistrationNonce: rb(32), CertificateBundles: []*types.CertificateBundle{{CertificateDer: rb(tp.Range(1, 400)), CertificateNotBefore: timestamppb.Now()}}}
	case 3:
		return &types.WrappingRegistrationFlowInfo{Nonce: rb(32), CertificatePublicKeyPkix: rb(44), ApplicationSpecificParams: mkStruct(r, tp.Draw(4))}
	case 4:
		return &types.RotateNodeCredentialsResponse{EncryptedFetchNodeCredentialsResponse: rb(tp.Range(0, 200))}
	case 5:
		s := mkStruct(r, 1+tp.Draw(3))
		return s
	default:
		return &types.GenerateServerCertificatesRequest{Nonce: rb(32), NonceSignature: rb(64), NodeId: fmt.Sprintf("n%d", tp.Draw(100)), ClientState: rb(tp.Range(0, 50))}
	}
}

type inflight struct {
	ct     []byte
	msg    proto.Message
	from   *epochKeys
	toNode bool
	sentAt int
}

// C11: encrypted messages are authenticated and bound to key and key ID.
func propC11(r *kernel.Run) {
	tp := r.Tape
	ctx := contextBG
	newEpoch := func(n int, old *epochKeys) *epochKeys {
		e := &epochKeys{n: n}
		// usually everything rotates; sometimes only the certificate key (same secret, new key ID) or only the encryption keys
		mode := 0
		if old != nil {
			mode = tp.Draw(5)
		}
		if mode == 1 {
			e.nodeEnc, e.srvEnc = old.nodeEnc, old.srvEnc
		} else {
			e.nodeEnc, _ = ecdh.X25519().GenerateKey(rand.Reader)
			e.srvEnc, _ = ecdh.X25519().GenerateKey(rand.Reader)
		}
		if mode == 2 {
			e.pkix = old.pkix
		} else {
			e.pkix = NewIdent("k").Pkix
		}
		return e
	}
	e0 := newEpoch(0, nil)
	node := &side{isNode: true, cur: e0}
	srv := &side{isNode: false, cur: e0}
	otherPair := newEpoch(99, nil)
	rotations := 0
	var flying []*inflight
	checked := map[*epochKeys]bool{}
	lastOfType := map[string]proto.Message{}
	nsteps := tp.Range(10, r.Deep(60, 200))
	for st := 0; st < nsteps; st++ {
		// key agreement: both sides of one epoch derive the same secret and key ID, equal to an independent X25519
		for _, e := range []*epochKeys{node.cur, srv.cur} {
			if checked[e] {
				continue
			}
			checked[e] = true
			r.Count("oracle.key_agreement", 1)
			ki, si, err1 := e.creds().X25519EncryptionKey()
			kj, sj, err2 := e.info().X25519EncryptionKey()
			if err1 != nil || err2 != nil || ki != kj || !bytes.Equal(si, sj) || !bytes.Equal(si, e.secret()) || ki != keyID(e.pkix) {
				r.Violate("key-agreement", "sides-derive-different-keys", "node side (%s,%x) server side (%s,%x) independent (%s,%x)", ki, si, kj, sj, keyID(e.pkix), e.secret())
			}
		}
		switch k := tp.Draw(10); {
		case k < 2 && rotations < r.Deep(3, 8): // rotate: one or both sides move to a new epoch; previous key recorded or not
			rotations++
			ne := newEpoch(rotations, node.cur)
			who := tp.Draw(4) // 0 both, 1 node only (reply lost on the way back is modelled as server only), 2 server only, 3 both
			if who != 2 {
				old := node.cur
				node.cur, node.prev = ne, nil
				if tp.Draw(3) != 0 {
					node.prev = old
				}
			}
			if who != 1 {
				old := srv.cur
				srv.cur, srv.prev = ne, nil
				if tp.Draw(3) != 0 {
					srv.prev = old
				}
			}
			r.Count("ops.key_rotation", 1)
		case k < 6: // send: encrypt under the sender's current key and put in flight
			fromNode := tp.Draw(2) == 0
			s := srv
			if fromNode {
				s = node
			}
			msg := randomMessage(r)
			ct, err := nodeenrollment.EncryptMessage(ctx, msg, s.producer(r))
			if err != nil {
				r.Violate("encrypt", "encrypt-failed", "EncryptMessage failed: %v", err)
			}
			flying = append(flying, &inflight{ct: ct, msg: msg, from: s.cur, toNode: !fromNode, sentAt: rotations})
			r.Count("ops.encrypt", 1)
		default: // deliver one in-flight message (possibly reordered, possibly corrupted)
			if len(flying) == 0 {
				continue
			}
			i := tp.Draw(len(flying))
			f := flying[i]
			flying = append(flying[:i], flying[i+1:]...)
			recv := srv
			if f.toNode {
				recv = node
			}
			ct := append([]byte(nil), f.ct...)
			corrupt := "none"
			mixedPair := false
			switch tp.Draw(11) {
			case 0:
				b := tp.Draw(len(ct) * 8)
				ct[b/8] ^= 1 << (b % 8)
				corrupt = "bitflip"
			case 1:
				n := tp.Range(1, 8)
				at := tp.Draw(len(ct))
				for j := 0; j < n && at+j < len(ct); j++ {
					ct[at+j] ^= byte(1 + tp.Draw(255))
				}
				corrupt = "overwrite"
			case 2:
				ct = ct[:tp.Draw(len(ct))]
				corrupt = "truncated"
			case 3:
				// truncate the AEAD ciphertext inside a well-formed blob to 0..40 bytes
				bi := new(wrapping.BlobInfo)
				if err := proto.Unmarshal(ct, bi); err == nil {
					n := tp.Draw(41)
					if n > len(bi.Ciphertext) {
						n = len(bi.Ciphertext)
					}
					bi.Ciphertext = bi.Ciphertext[:n]
					ct, _ = proto.Marshal(bi)
				}
				corrupt = "aead-truncated"
			case 4:
				ct = tp.Bytes(tp.Range(1, 80))
				corrupt = "arbitrary"
			case 6, 7:
				// a well-formed envelope without the optional key_info part: the genuine ciphertext (possibly damaged) or random
				// bytes of a plausible length
				bi := new(wrapping.BlobInfo)
				if err := proto.Unmarshal(ct, bi); err == nil {
					nb := &wrapping.BlobInfo{Ciphertext: append([]byte(nil), bi.Ciphertext...), Iv: bi.Iv}
					switch tp.Draw(3) {
					case 0:
						if len(nb.Ciphertext) > 0 {
							nb.Ciphertext[tp.Draw(len(nb.Ciphertext))] ^= 1 << tp.Draw(8)
						}
					case 1:
						nb.Ciphertext = tp.Bytes(tp.Range(12, 80))
					}
					ct, _ = proto.Marshal(nb)
				}
				corrupt = "envelope-without-key-info"
			case 5:
				other, err := nodeenrollment.EncryptMessage(ctx, randomMessage(r), otherPair.creds())
				if err == nil {
					ct = other
				}
				corrupt = "foreign-valid-blob"
			}
			if corrupt == "none" && recv.prev != nil && tp.Draw(10) == 0 {
				// a message sealed with the receiver's RETIRED secret but labelled with its CURRENT key ID (or the other way
				// round): a (secret, key ID) pair that is neither the receiver's current nor its recorded previous one
				curID, prevID := keyID(recv.cur.pkix), keyID(recv.prev.pkix)
				if curID != prevID && !bytes.Equal(recv.cur.secret(), recv.prev.secret()) {
					src := keySrc{curID, recv.prev.secret()}
					corrupt = "retired-secret-under-current-key-id"
					if tp.Draw(2) == 0 {
						src = keySrc{prevID, recv.cur.secret()}
						corrupt = "current-secret-under-retired-key-id"
					}
					if mixed, err := nodeenrollment.EncryptMessage(ctx, f.msg, src); err == nil {
						ct = mixed
						mixedPair = true
					} else {
						corrupt = "none"
					}
				}
			}
			if corrupt != "none" {
				r.Count("fault.wire."+corrupt, 1)
			}
			out := f.msg.ProtoReflect().New().Interface()
			dirty := ""
			if prevOfType := lastOfType[fmt.Sprintf("%T", f.msg)]; prevOfType != nil && tp.Draw(3) == 0 {
				// the caller reuses a message that still holds an earlier, different message of the same type
				out = proto.Clone(prevOfType)
				dirty = " destination-holds-earlier-message"
				r.Count("cfg.decrypt_into_reused_message", 1)
			}
			lastOfType[fmt.Sprintf("%T", f.msg)] = f.msg
			var err error
			prod := recv.producer(r)
			blank := ""
			if tp.Draw(8) == 0 {
				b := blankID{inner: prod, blankCur: tp.Draw(2) == 0}
				b.blankPrev = !b.blankCur || tp.Draw(2) == 0
				prod = b
				blank = fmt.Sprintf(" receiverIDsBlank(cur=%v,prev=%v)", b.blankCur, b.blankPrev)
				r.Count("cfg.receiver_with_blank_key_id", 1)
			}
			if p, msg, site := kernel.Guard(func() { err = nodeenrollment.DecryptMessage(ctx, ct, prod, out) }); p {
				r.Violate("no-panic", "decrypt-panic/"+site, "DecryptMessage panicked on a %s ciphertext of %d bytes: %s", corrupt, len(ct), msg)
			}
			matchCur := sameEpochKey(f.from, recv.cur)
			matchPrev := sameEpochKey(f.from, recv.prev)
			if b, ok := prod.(blankID); ok {
				// an empty key ID is a different key ID (senders built from library types always have one)
				matchCur = matchCur && !b.blankCur
				matchPrev = matchPrev && !b.blankPrev
			}
			held := rotations - f.sentAt
			r.Count("cases", 1)
			r.Count("ops.decrypt", 1)
			desc := fmt.Sprintf("toNode=%v sentEpoch=%d recvCur=%d recvPrev=%v heldAcross=%d corrupt=%s type=%T%s%s -> err=%s", f.toNode, f.from.n, recv.cur.n, prevN(recv.prev), held, corrupt, f.msg, blank, dirty, shortErr(err))
			if corrupt == "none" {
				switch {
				case (matchCur || matchPrev) && err != nil:
					which := "current"
					if !matchCur {
						which = "previous"
					}
					r.Violate("roundtrip", "decrypt-failed-with-matching-"+which+"-key", "%s", desc)
				case (matchCur || matchPrev) && !proto.Equal(out, f.msg):
					r.Violate("roundtrip", "roundtrip-differs", "%s", desc)
				case !(matchCur || matchPrev) && err == nil:
					why := "different-secret"
					if bytes.Equal(f.from.secret(), recv.cur.secret()) {
						why = "different-key-id"
					}
					r.Violate("bound-to-key", "decrypted-with-"+why, "%s", desc)
				}
				if matchPrev && !matchCur && err == nil {
					r.Count("probe.decrypted_with_previous_key", 1)
				}
			} else if err == nil {
				if mixedPair || !(matchCur || matchPrev) || !proto.Equal(out, f.msg) {
					r.Violate("authenticated", "corrupted-ciphertext-accepted/"+corrupt, "a %s ciphertext decrypted to a message that is not the original (or under a non-matching key): %s", corrupt, desc)
				}
				r.Count("probe.corruption_harmless", 1)
			}
			r.FP(f.toNode, matchCur, matchPrev, held, corrupt, err == nil, fmt.Sprintf("%T", f.msg))
			r.StateFP(matchCur, matchPrev, corrupt, err == nil)
			if r.Index%500 == 0 && st%17 == 0 {
				r.SetSample(map[string]any{"case": desc})
			}
		}
	}
}

func prevN(e *epochKeys) any {
	if e == nil {
		return nil
	}
	return e.n
}

func init() {
	register(&Prop{ID: "C11", Engine: propC11})
}
