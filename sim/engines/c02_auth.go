//go:build verif

package engines

import (
	"crypto/elliptic"
	"crypto/ecdsa"
	"crypto"
	"bytes"
	"crypto/ed25519"
	"crypto/rand"
	"crypto/tls"
	"crypto/x509"
	"crypto/x509/pkix"
	"encoding/base64"
	"fmt"
	"math/big"
	"strings"
	"time"

	"github.com/hashicorp/nodeenrollment"
	"github.com/hashicorp/nodeenrollment/registration"
	"github.com/hashicorp/nodeenrollment/rotation"
	nodetls "github.com/hashicorp/nodeenrollment/tls"
	"github.com/hashicorp/nodeenrollment/types"
	"google.golang.org/protobuf/proto"

	"verifsim/kernel"
)

type regNode struct {
	name     string
	w        *World
	id       *Ident
	creds    *types.NodeCredentials
	nodeID   string
	observed *types.GenerateServerCertificatesRequest // last honest request seen on the wire (nonce + signature are public)
}

// serverTrusts reports whether leaf chains to a root that is current or next in server storage and valid now.
func serverTrusts(srv *World, leaf *x509.Certificate, now time.Time) bool {
	roots, err := types.LoadRootCertificates(contextBG, srv.Inner, srv.Opts()...)
	if err != nil {
		return false
	}
	if now.Before(leaf.NotBefore) || now.After(leaf.NotAfter) {
		return false
	}
	for _, rc := range []*types.RootCertificate{roots.Current, roots.Next} {
		ca, err := x509.ParseCertificate(rc.CertificateDer)
		if err != nil {
			continue
		}
		if now.Before(ca.NotBefore) || now.After(ca.NotAfter) {
			continue
		}
		if leaf.CheckSignatureFrom(ca) == nil {
			return true
		}
	}
	return false
}

// recordVerifies: is there a stored record (by key ID of pub, or under nodeID) whose key verifies (nonce, sig)?
func recordVerifies(srv *World, loader bool, nodeIDHint string, actualPkix []byte, nonce, sig []byte) bool {
	if len(nonce) == 0 || len(sig) == 0 {
		return false
	}
	check := func(ni *types.NodeInformation) bool {
		k, err := x509.ParsePKIXPublicKey(ni.CertificatePublicKeyPkix)
		if err != nil {
			return false
		}
		pk, ok := k.(ed25519.PublicKey)
		return ok && ed25519.Verify(pk, nonce, sig)
	}
	if nodeIDHint != "" && loader {
		for id := range countNodeInfos(srv) {
			ni, err := types.LoadNodeInformation(contextBG, srv.Inner, id, srv.Opts()...)
			if err == nil && ni.NodeId == nodeIDHint && check(ni) {
				return true
			}
		}
		return false
	}
	ni, err := types.LoadNodeInformation(contextBG, srv.Inner, keyID(actualPkix), srv.Opts()...)
	if err != nil {
		return false
	}
	return bytes.Equal(ni.CertificatePublicKeyPkix, actualPkix) && check(ni)
}

// advClient describes one adversarial connection attempt.
type advClient struct {
	desc       string
	chain      [][]byte
	leaf       *x509.Certificate
	key        ed25519.PrivateKey
	otherKey   crypto.PrivateKey // set when the presented certificate's key is not Ed25519
	holdsKey   bool
	req        *types.GenerateServerCertificatesRequest
	extras     []string
	certPref   string
	mutateALPN bool
}

func mintLeaf(caCert *x509.Certificate, caKey ed25519.PrivateKey, pub ed25519.PublicKey, ski []byte, cn string, eku x509.ExtKeyUsage, nb, na time.Time) []byte {
	tmpl := &x509.Certificate{SerialNumber: big.NewInt(99), Subject: pkix.Name{CommonName: cn}, DNSNames: []string{cn, nodeenrollment.CommonDnsName}, SubjectKeyId: ski,
		NotBefore: nb, NotAfter: na, KeyUsage: x509.KeyUsageDigitalSignature | x509.KeyUsageKeyEncipherment | x509.KeyUsageKeyAgreement, ExtKeyUsage: []x509.ExtKeyUsage{eku}}
	if caCert == nil {
		tmpl.IsCA, tmpl.BasicConstraintsValid = true, true
		tmpl.KeyUsage |= x509.KeyUsageCertSign
		der, _ := x509.CreateCertificate(rand.Reader, tmpl, tmpl, pub, caKey)
		return der
	}
	tmpl.AuthorityKeyId = caCert.SubjectKeyId
	der, _ := x509.CreateCertificate(rand.Reader, tmpl, caCert, pub, caKey)
	return der
}

// C02: the listener authenticates only registered nodes that prove key possession.
func propC02(r *kernel.Run) {
	tp := r.Tape
	loader := tp.Draw(2) == 0
	srv := NewWorld(r, "server", Pick2(tp, "inmem", "storeonce"), tp.Draw(2) == 0, loader)
	srv.St.EmptyOnMiss = loader && tp.Draw(2) == 0 // a NodeIdLoader may answer an unknown node ID with an empty set instead of ErrNotFound
	rotate := func() {
		if _, err := rotation.RotateRootCertificates(srv.Ctx, srv.Storage, srv.Opts()...); err != nil {
			r.HarnessErr("roots: %v", err)
		}
	}
	rotate()
	var base *tls.Config
	if tp.Draw(2) == 0 {
		c, _ := selfSignedTLS("base.example", x509.ExtKeyUsageServerAuth)
		base = &tls.Config{Certificates: []tls.Certificate{c}, NextProtos: []string{"h2"}}
	}
	w := NewWire(r, srv, base, srv.Opts())
	w.Net.Frag = tp.Draw(3) == 0
	w.StartAcceptor("acceptor")
	nNodes := tp.Range(2, 4)
	var nodes []*regNode
	for i := 0; i < nNodes; i++ {
		nw := NewWorld(r, fmt.Sprintf("node%d", i), "inmem", false, false)
		nid := ""
		if tp.Draw(2) == 0 {
			nid = Pick2(tp, "nid-A", "nid-B")
		}
		creds, id := enrollStored(r, srv, nw, mkStruct(r, tp.Draw(3)), nid)
		nodes = append(nodes, &regNode{name: fmt.Sprintf("node%d", i), w: nw, id: id, creds: creds, nodeID: nid})
	}
	present := func(n *regNode) bool { return countNodeInfos(srv)[n.id.KeyId] != nil }
	// attacker's own CA
	_, fcaKey, _ := ed25519.GenerateKey(rand.Reader)
	fcaDer := mintLeaf(nil, fcaKey, fcaKey.Public().(ed25519.PublicKey), []byte("foreign-ca"), "foreign-ca", x509.ExtKeyUsageClientAuth, time.Now().Add(-time.Hour), time.Now().Add(1000*24*time.Hour))
	fca, _ := x509.ParseCertificate(fcaDer)

	var hist []string
	nops := tp.Range(4, r.Deep(14, 40))
	for op := 0; op < nops; op++ {
		n := nodes[tp.Draw(len(nodes))]
		switch k := tp.Draw(12); {
		case k == 0: // operator removes a node
			if present(n) {
				srv.Inner.Remove(contextBG, &types.NodeInformation{Id: n.id.KeyId})
				hist = append(hist, "remove "+n.name)
				r.Count("ops.remove_node", 1)
			}
		case k == 1: // operator re-registers a removed node (same key)
			if !present(n) {
				req, _ := BuildFetch(HonestSpec(n.id))
				if ni, err := registration.AuthorizeNode(srv.Ctx, srv.Storage, req, srv.Opts()...); err == nil && n.nodeID != "" {
					setNodeID(r, srv, ni, n.nodeID)
				}
				hist = append(hist, "re-register "+n.name)
				r.Count("ops.reregister_node", 1)
			}
		case k == 2 && tp.Draw(4) == 0: // the operator replaces both roots at once (compromise response): nothing issued before counts any more
			if _, err := rotation.RotateRootCertificates(srv.Ctx, srv.Storage, srv.Opts(nodeenrollment.WithReinitializeRoots(true))...); err != nil {
				r.HarnessErr("reinitialize roots: %v", err)
			}
			hist = append(hist, "reinitialize roots")
			r.Count("ops.reinitialize_roots", 1)
		case k == 2: // time passes; the server rotates its roots when due
			d := kernel.Pick(tp, 3*24*time.Hour, 8*24*time.Hour, 15*24*time.Hour)
			r.Sleep(d)
			rotate()
			hist = append(hist, "sleep "+d.String()+" + rotate roots")
			r.Count("ops.clock_jump_and_rotate", 1)
		case k <= 4: // honest connection
			res := w.DialHonest(fmt.Sprintf("h%d", r.NextID()), n.w, w.Addr, nodeenrollment.WithState(mkStruct(r, tp.Draw(3))))
			w.Quiesce()
			acc := w.Take()
			if res.hello != nil {
				if rq := authRequestFromALPN(res.hello); rq != nil {
					n.observed = rq
				}
			}
			authed := 0
			for _, a := range acc {
				if a.panicMsg != "" {
					r.Violate("no-panic", "accept-panic/"+a.panicSite, "%s", a.panicMsg)
				}
				if a.err == nil && strings.HasPrefix(a.negotiated, nodeenrollment.AuthenticateNodeNextProtoV1Prefix) {
					authed++
					a.raw.Close()
				}
				if a.err == nil && strings.HasPrefix(a.negotiated, nodeenrollment.FetchNodeCredsNextProtoV1Prefix) {
					r.Violate("fetch-never-a-connection", "fetch-handshake-returned-connection", "Accept returned a connection for a credential-fetch handshake")
				}
			}
			leafOK := false
			now := time.Now()
			for _, b := range n.creds.CertificateBundles {
				if lf, err := x509.ParseCertificate(b.CertificateDer); err == nil && serverTrusts(srv, lf, now) {
					leafOK = true
				}
			}
			expect := present(n) && leafOK
			if authed > 0 && !expect {
				r.Violate("auth-only-registered", "authenticated-unregistered/honest-client", "honest client %s was authenticated although record present=%v chain trusted=%v", n.name, present(n), leafOK)
			}
			if res.conn != nil {
				res.conn.Close()
			}
			w.Quiesce()
			w.Take()
			hist = append(hist, fmt.Sprintf("honest dial %s present=%v chainTrusted=%v -> authenticated=%v", n.name, present(n), leafOK, authed > 0))
			r.Count("ops.honest_dial", 1)
			r.FP("honest", present(n), leafOK, authed > 0)
		default:
			c02Adversary(r, tp, w, srv, loader, nodes, n, fca, fcaKey, &hist)
		}
	}
	if r.Index%150 == 0 {
		if len(hist) > 12 {
			hist = hist[:12]
		}
		r.SetSample(map[string]any{"history": hist, "node_id_loader": loader, "base_tls": base != nil})
	}
}

func c02Adversary(r *kernel.Run, tp *kernel.Tape, w *Wire, srv *World, loader bool, nodes []*regNode, me *regNode, fca *x509.Certificate, fcaKey ed25519.PrivateKey, hist *[]string) {
	now := time.Now()
	victim := nodes[tp.Draw(len(nodes))]
	if tp.Draw(8) == 0 {
		// a credential-fetch handshake driven by hand: a well-signed fetch request (of a registered or an unknown key), with
		// application protocols listed before, after or around the request entries. Whatever the order, it never yields a
		// connection.
		id := victim.id
		who := "registered-key"
		if tp.Draw(2) == 0 {
			id, who = NewIdent("fetcher"), "unknown-key"
		}
		freq, _ := BuildFetch(HonestSpec(id))
		fb, _ := proto.Marshal(freq)
		list := chunkALPN(nodeenrollment.FetchNodeCredsNextProtoV1Prefix, base64.RawStdEncoding.EncodeToString(fb))
		order := Pick2(tp, "request-only", "application-protocol-first", "application-protocol-last", "application-protocols-around")
		switch order {
		case "application-protocol-first":
			list = append([]string{"h2"}, list...)
		case "application-protocol-last":
			list = append(list, "h2")
		case "application-protocols-around":
			list = append(append([]string{"http/1.1", "h2"}, list...), "grpc-exp")
		}
		cfg := &tls.Config{NextProtos: list, InsecureSkipVerify: true, MinVersion: tls.VersionTLS13, ServerName: nodeenrollment.CommonDnsName}
		if tp.Draw(2) == 0 {
			b := me.creds.CertificateBundles[tp.Draw(2)]
			cfg.Certificates = []tls.Certificate{{Certificate: [][]byte{b.CertificateDer, b.CaCertificateDer}, PrivateKey: me.id.Priv}}
		}
		res := w.rawClient(fmt.Sprintf("fetcher%d", r.NextID()), cfg)
		w.Quiesce()
		got := 0
		for _, a := range w.Take() {
			if a.panicMsg != "" {
				r.Violate("no-panic", "accept-panic/"+a.panicSite, "%s", a.panicMsg)
			}
			if a.err == nil {
				got++
				r.Violate("fetch-never-a-connection", "fetch-handshake-returned-connection", "Accept returned a connection (negotiated %q) for a hand-driven credential-fetch handshake (%s, %s)", truncate(a.negotiated, 40), who, order)
			}
			if a.raw != nil {
				a.raw.Close()
			}
		}
		if res.conn != nil {
			res.conn.Close()
		}
		w.Quiesce()
		w.Take()
		*hist = append(*hist, fmt.Sprintf("hand-driven fetch %s %s -> connections=%d", who, order, got))
		r.Count("cases", 1)
		r.Count("ops.hand_driven_fetch_handshake", 1)
		r.FP("fetch", who, order, got)
		return
	}
	adv := &advClient{}
	// ---- which certificate and key the client presents
	certKind := Pick2(tp, "own", "own", "own", "stolen-leaf", "foreign-root", "self-signed", "server-auth-for-victim", "server-auth-for-victim", "self-signed-p256-naming-victim", "own-self-signed-leaf-then-victims-genuine-certificate")
	claim := me
	bundle := me.creds.CertificateBundles[tp.Draw(2)]
	_, atkKey, _ := ed25519.GenerateKey(rand.Reader)
	atkPub := atkKey.Public().(ed25519.PublicKey)
	switch certKind {
	case "own":
		adv.chain, adv.key, adv.holdsKey = [][]byte{bundle.CertificateDer, bundle.CaCertificateDer}, me.id.Priv, true
		if tp.Draw(3) == 0 {
			claim = victim // a valid certificate of its own, but the request names (and replays) another node's key
		}
	case "stolen-leaf":
		claim = victim
		vb := victim.creds.CertificateBundles[tp.Draw(2)]
		adv.chain, adv.key, adv.holdsKey = [][]byte{vb.CertificateDer, vb.CaCertificateDer}, atkKey, bytes.Equal(victim.id.Pub, atkPub)
	case "foreign-root":
		claim = victim
		der := mintLeaf(fca, fcaKey, atkPub, victim.id.Pkix, victim.id.KeyId, x509.ExtKeyUsageClientAuth, now.Add(-time.Hour), now.Add(24*time.Hour))
		adv.chain, adv.key, adv.holdsKey = [][]byte{der, fca.Raw}, atkKey, true
	case "self-signed":
		claim = victim
		der := mintLeaf(nil, atkKey, atkPub, victim.id.Pkix, victim.id.KeyId, x509.ExtKeyUsageClientAuth, now.Add(-time.Hour), now.Add(24*time.Hour))
		adv.chain, adv.key, adv.holdsKey = [][]byte{der}, atkKey, true
	case "own-self-signed-leaf-then-victims-genuine-certificate":
		// TLS proves possession of the key of the FIRST certificate only. Behind its own self-signed leaf the client sends
		// the victim's genuine certificate and issuer (certificates are not secret: they cross the wire in every handshake)
		claim = victim
		ski := [][]byte{victim.id.Pkix, []byte("attacker-leaf"), nil}[tp.Draw(3)]
		der := mintLeaf(nil, atkKey, atkPub, ski, victim.id.KeyId, x509.ExtKeyUsageClientAuth, now.Add(-time.Hour), now.Add(24*time.Hour))
		vb := victim.creds.CertificateBundles[tp.Draw(2)]
		adv.chain, adv.key, adv.holdsKey = [][]byte{der, vb.CertificateDer, vb.CaCertificateDer}, atkKey, true
	case "self-signed-p256-naming-victim":
		// a self-signed certificate of ANOTHER key algorithm whose subject key ID names the victim's key
		claim = victim
		ek, _ := ecdsa.GenerateKey(elliptic.P256(), rand.Reader)
		tmpl := &x509.Certificate{SerialNumber: big.NewInt(77), Subject: pkix.Name{CommonName: victim.id.KeyId}, DNSNames: []string{victim.id.KeyId}, SubjectKeyId: victim.id.Pkix,
			NotBefore: now.Add(-time.Hour), NotAfter: now.Add(24 * time.Hour), KeyUsage: x509.KeyUsageDigitalSignature | x509.KeyUsageCertSign, ExtKeyUsage: []x509.ExtKeyUsage{x509.ExtKeyUsageClientAuth}, IsCA: true, BasicConstraintsValid: true}
		der, err := x509.CreateCertificate(rand.Reader, tmpl, tmpl, &ek.PublicKey, ek)
		if err != nil {
			r.HarnessErr("p256 cert: %v", err)
		}
		adv.chain, adv.key, adv.otherKey, adv.holdsKey = [][]byte{der}, atkKey, ek, true
	case "server-auth-for-victim":
		// what any intermediate hop can obtain: a server-side leaf minted by the real roots for the victim's key
		claim = victim
		resp, err := nodetls.GenerateServerCertificates(contextBG, srv.Inner, &types.GenerateServerCertificatesRequest{CertificatePublicKeyPkix: victim.id.Pkix, SkipVerification: true, Nonce: []byte("intermediate-hop-nonce-0123456789")}, srv.Opts()...)
		if err != nil {
			r.HarnessErr("mint server leaf: %v", err)
		}
		k, _ := x509.ParsePKCS8PrivateKey(resp.CertificatePrivateKeyPkcs8)
		b := resp.CertificateBundles[tp.Draw(2)]
		adv.chain, adv.key, adv.holdsKey = [][]byte{b.CertificateDer, b.CaCertificateDer}, k.(ed25519.PrivateKey), true
	}
	adv.leaf, _ = x509.ParseCertificate(adv.chain[0])
	// ---- the ALPN-carried request
	nonce := make([]byte, 32)
	rand.Read(nonce)
	req := &types.GenerateServerCertificatesRequest{CertificatePublicKeyPkix: claim.id.Pkix, Nonce: nonce}
	sigKind := Pick2(tp, "by-presented-key", "by-presented-key", "replayed-from-victim", "replayed-from-victim", "forged", "missing")
	switch sigKind {
	case "by-presented-key":
		req.NonceSignature = ed25519.Sign(adv.key, nonce)
	case "replayed-from-victim":
		if victim.observed != nil {
			req.Nonce, req.NonceSignature = victim.observed.Nonce, victim.observed.NonceSignature
		} else {
			sigKind = "forged"
			req.NonceSignature = tp.Bytes(64)
		}
	case "forged":
		req.NonceSignature = tp.Bytes(64)
	}
	req.SkipVerification = tp.Draw(3) == 0
	if tp.Draw(4) == 0 {
		req.CommonName = Pick2(tp, nodeenrollment.CommonDnsName, "evil.example", victim.id.KeyId)
	}
	hint := Pick2(tp, "", "", "own", "foreign", "unknown")
	switch hint {
	case "own":
		req.NodeId = me.nodeID
	case "foreign":
		req.NodeId = victim.nodeID
		if req.NodeId == "" {
			req.NodeId = "nid-A"
		}
	case "unknown":
		req.NodeId = "nid-nobody"
	}
	stateKind := Pick2(tp, "none", "none", "signed-by-presented-key", "forged", "unsigned")
	if stateKind != "none" {
		sb := detMarshal(mkStruct(r, 2))
		req.ClientState = sb
		switch stateKind {
		case "signed-by-presented-key":
			req.ClientStateSignature = ed25519.Sign(adv.key, sb)
		case "forged":
			req.ClientStateSignature = tp.Bytes(64)
		}
	}
	rb, _ := proto.Marshal(req)
	alpn := chunkALPN(nodeenrollment.AuthenticateNodeNextProtoV1Prefix, base64.RawStdEncoding.EncodeToString(rb))
	mut := ""
	if tp.Draw(6) == 0 {
		// byte mutation of the ALPN-carried request
		i := tp.Draw(len(alpn))
		e := []byte(alpn[i])
		at := len(nodeenrollment.AuthenticateNodeNextProtoV1Prefix) + 3 + tp.Draw(len(e)-len(nodeenrollment.AuthenticateNodeNextProtoV1Prefix)-3)
		const b64 = "ABCDEFGHIJKLMNOPQRSTUVWXYZabcdefghijklmnopqrstuvwxyz0123456789+/"
		e[at] = b64[tp.Draw(64)]
		alpn[i] = string(e)
		mut = "mutated"
		r.Count("fault.alpn_byte_mutation", 1)
	}
	// entries under the other library prefixes mixed into the list (dispatch handles the first library entry only)
	mix := Pick2(tp, "none", "none", "none", "fetch-entry-appended", "fetch-entry-prepended", "second-auth-list-appended")
	switch mix {
	case "fetch-entry-appended":
		alpn = append(alpn, nodeenrollment.FetchNodeCredsNextProtoV1Prefix+"00-AAAA")
	case "fetch-entry-prepended":
		alpn = append([]string{nodeenrollment.FetchNodeCredsNextProtoV1Prefix + "00-AAAA"}, alpn...)
	case "second-auth-list-appended":
		alpn = append(alpn, "h2", nodeenrollment.AuthenticateNodeNextProtoV1Prefix+"99-AAAA")
	}
	if mix != "none" {
		r.Count("fault.mixed_library_prefixes", 1)
	}
	prefKind := Pick2(tp, "valid", "valid", "garbage", "absent", "servers-current-root")
	switch prefKind {
	case "servers-current-root":
		// ask for the chain of whatever root the server holds as current now (public knowledge), whichever chain is presented
		if roots, err := types.LoadRootCertificates(contextBG, srv.Inner, srv.Opts()...); err == nil {
			alpn = append(alpn, nodeenrollment.CertificatePreferenceV1Prefix+keyID(roots.Current.PublicKeyPkix))
		}
	case "valid":
		if len(adv.chain) > 1 {
			if ca, err := x509.ParseCertificate(adv.chain[1]); err == nil {
				pk, _ := x509.MarshalPKIXPublicKey(ca.PublicKey)
				alpn = append(alpn, nodeenrollment.CertificatePreferenceV1Prefix+keyID(pk))
			}
		}
	case "garbage":
		alpn = append(alpn, nodeenrollment.CertificatePreferenceV1Prefix+"not-a-key-id")
	}
	// ---- reference model on what actually goes over the wire
	wireReq := authRequestFromALPN(alpn)
	pubPkix, _ := x509.MarshalPKIXPublicKey(adv.leaf.PublicKey)
	chainOK := serverTrusts(srv, adv.leaf, now)
	recOK := wireReq != nil && recordVerifies(srv, loader, wireReq.NodeId, pubPkix, wireReq.Nonce, wireReq.NonceSignature)
	allowed := adv.holdsKey && chainOK && recOK

	cfg := &tls.Config{NextProtos: alpn, InsecureSkipVerify: true, MinVersion: tls.VersionTLS13, ServerName: "server",
		GetClientCertificate: func(*tls.CertificateRequestInfo) (*tls.Certificate, error) {
			if adv.otherKey != nil {
				return &tls.Certificate{Certificate: adv.chain, PrivateKey: adv.otherKey}, nil
			}
			return &tls.Certificate{Certificate: adv.chain, PrivateKey: adv.key}, nil
		}}
	res := w.rawClient(fmt.Sprintf("adv%d", r.NextID()), cfg)
	w.Quiesce()
	acc := w.Take()
	authed := false
	for _, a := range acc {
		if a.panicMsg != "" {
			r.Violate("no-panic", "accept-panic/"+a.panicSite, "%s", a.panicMsg)
		}
		if a.err == nil && strings.HasPrefix(a.negotiated, nodeenrollment.AuthenticateNodeNextProtoV1Prefix) {
			authed = true
		}
		if a.err == nil && strings.HasPrefix(a.negotiated, nodeenrollment.FetchNodeCredsNextProtoV1Prefix) {
			r.Violate("fetch-never-a-connection", "fetch-handshake-returned-connection", "Accept returned a connection for a handshake that negotiated the credential-fetch protocol (mix=%s)", mix)
		}
		if a.raw != nil {
			a.raw.Close()
		}
	}
	if res.conn != nil {
		res.conn.Close()
	}
	w.Quiesce()
	w.Take()
	recPresent := countNodeInfos(srv)[keyID(pubPkix)] != nil
	desc := fmt.Sprintf("cert=%s presenter=%s claim=%s nonceSig=%s skip=%v cn=%q nodeID=%s(%q) state=%s pref=%s %s mix=%s loader=%v | holdsKey=%v chainTrusted=%v recordOfPresentedKey=%v recordVerifiesNonce=%v -> authenticated=%v",
		certKind, me.name, claim.name, sigKind, req.SkipVerification, req.CommonName, hint, req.NodeId, stateKind, prefKind, mut, mix, loader, adv.holdsKey, chainOK, recPresent, recOK, authed)
	*hist = append(*hist, desc)
	r.Count("cases", 1)
	r.Count("ops.adversarial_connection", 1)
	if authed {
		r.Count("probe.adversary_authenticated_legitimately", 1)
	}
	if authed && !allowed {
		why := ""
		switch {
		case !adv.holdsKey:
			why = "no-key-possession"
		case !chainOK:
			why = "untrusted-chain/" + certKind
		case wireReq != nil && wireReq.SkipVerification && !recordVerifies(srv, loader, wireReq.NodeId, wireReq.CertificatePublicKeyPkix, wireReq.Nonce, wireReq.NonceSignature):
			why = "skip-verification-honoured"
		case certKind == "server-auth-for-victim":
			why = "server-auth-leaf-for-victim"
		default:
			why = "no-verifying-record/" + sigKind
		}
		r.Violate("auth-only-registered", "authenticated-unregistered/"+why, "%s", desc)
	}
	r.FP(certKind, sigKind, req.SkipVerification, hint, stateKind, prefKind, mut, mix, adv.holdsKey, chainOK, recOK, authed)
	r.StateFP(certKind, sigKind, allowed, authed)
}

func init() {
	register(&Prop{ID: "C02", Engine: propC02})
}
