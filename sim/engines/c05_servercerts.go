//go:build verif

package engines

import (
	"bytes"
	"crypto/ed25519"
	"crypto/x509"
	"encoding/base64"
	"fmt"

	"github.com/hashicorp/nodeenrollment"
	"github.com/hashicorp/nodeenrollment/registration"
	"github.com/hashicorp/nodeenrollment/rotation"
	nodetls "github.com/hashicorp/nodeenrollment/tls"
	"github.com/hashicorp/nodeenrollment/types"
	"google.golang.org/protobuf/proto"

	"verifsim/kernel"
)

// registerNode authorizes an identity on the server through the real operator flow and optionally assigns a node ID
// (the application sets NodeId on the stored record, as Boundary does).
func registerNode(r *kernel.Run, w *World, id *Ident, nodeID string, prevPkix ...[]byte) *types.NodeInformation {
	sp := HonestSpec(id)
	if len(prevPkix) > 0 {
		sp.PrevPkix = prevPkix[0] // the record names the certificate key this node used before its last rotation
	}
	req, _ := BuildFetch(sp)
	ni, err := registration.AuthorizeNode(w.Ctx, w.Storage, req, w.Opts()...)
	if err != nil {
		r.HarnessErr("authorize %s: %v", id.Name, err)
	}
	if nodeID != "" {
		ni.NodeId = nodeID
		if w.Backend == "storeonce" {
			// store-once refuses overwriting: remove then store
			if err := w.Inner.Remove(w.Ctx, &types.NodeInformation{Id: ni.Id}); err != nil {
				r.HarnessErr("remove for node id: %v", err)
			}
		}
		if err := ni.Store(w.Ctx, w.Inner, w.Opts()...); err != nil {
			r.HarnessErr("store node id: %v", err)
		}
	}
	return ni
}

// C05: server certificates are minted only against a verified node signature.
func propC05(r *kernel.Run) {
	tp := r.Tape
	loader := tp.Draw(4) != 0
	backend := Pick2(tp, "inmem", "storeonce", "file")
	w := NewWorld(r, "server", backend, tp.Draw(2) == 1, loader)
	// the store-once back end has a node-ID lookup of its own: use it in half of its runs
	w.St.NativeLookup = loader && backend == "storeonce" && tp.Draw(2) == 0
	w.St.EmptyOnMiss = loader && tp.Draw(2) == 0 // a NodeIdLoader may answer an unknown node ID with an empty set instead of ErrNotFound
	if _, err := rotation.RotateRootCertificates(w.Ctx, w.Storage, w.Opts()...); err != nil {
		r.HarnessErr("bootstrap roots: %v", err)
	}
	// records: 1-4 under node ID "N", 0-2 under "M", 0-1 without node id, plus an unregistered identity
	nN := tp.Range(1, 4)
	var underN, underM, plain, retired []*Ident
	for i := 0; i < nN; i++ {
		id := NewIdent(fmt.Sprintf("N%d", i))
		if tp.Draw(3) == 0 {
			// this record is the product of a credential rotation: it names the previous certificate key, whose own record
			// has since been retired. The retired key is just another unregistered key.
			old := NewIdent(fmt.Sprintf("retired-predecessor-of-N%d", i))
			retired = append(retired, old)
			registerNode(r, w, id, "node-N", old.Pkix)
		} else {
			registerNode(r, w, id, "node-N")
		}
		underN = append(underN, id)
	}
	for i := 0; i < tp.Draw(3); i++ {
		id := NewIdent(fmt.Sprintf("M%d", i))
		registerNode(r, w, id, "node-N2")
		underM = append(underM, id)
	}
	if tp.Draw(2) == 0 {
		id := NewIdent("P0")
		registerNode(r, w, id, "")
		plain = append(plain, id)
	}
	unreg := NewIdent("unregistered")
	byKeyID := map[string]*Ident{}
	for _, l := range [][]*Ident{underN, underM, plain} {
		for _, id := range l {
			byKeyID[id.KeyId] = id
		}
	}

	removed := map[string]bool{}
	inStorage := func(l []*Ident) []*Ident {
		var out []*Ident
		for _, id := range l {
			if !removed[id.KeyId] {
				out = append(out, id)
			}
		}
		return out
	}
	ncases := tp.Range(6, r.Deep(20, 60))
	for ci := 0; ci < ncases; ci++ {
		// register/remove history: the operator removes a record (or restores a removed one) between requests
		if tp.Draw(6) == 0 {
			all := append(append(append([]*Ident{}, underN...), underM...), plain...)
			v := all[tp.Draw(len(all))]
			if removed[v.KeyId] {
				nid := ""
				for _, x := range underN {
					if x == v {
						nid = "node-N"
					}
				}
				for _, x := range underM {
					if x == v {
						nid = "node-N2"
					}
				}
				registerNode(r, w, v, nid)
				delete(removed, v.KeyId)
				r.Count("ops.reregister_node", 1)
			} else {
				if err := w.Inner.Remove(w.Ctx, &types.NodeInformation{Id: v.KeyId}); err != nil {
					r.HarnessErr("remove: %v", err)
				}
				removed[v.KeyId] = true
				r.Count("ops.remove_node", 1)
			}
		}
		// who claims to connect (certificate key in the request)
		claimPool := append(append(append([]*Ident{}, underN...), underM...), plain...)
		claimPool = append(claimPool, unreg)
		claimPool = append(claimPool, retired...)
		claim := claimPool[tp.Draw(len(claimPool))]
		signerPool := append(append([]*Ident{}, claimPool...), nil) // nil = no signature
		nonceSigner := signerPool[tp.Draw(len(signerPool))]
		if tp.Draw(3) == 0 {
			nonceSigner = claim
		}
		stateSigner := signerPool[tp.Draw(len(signerPool))]
		if tp.Draw(3) == 0 {
			stateSigner = nonceSigner
		}
		nodeIDHint := Pick2(tp, "", "node-N", "node-N2", "node-unknown", "node", "node-N ", "\nnode-N", " ", "node-N\x00", "NODE-N") // "node-N" is a prefix of "node-N2", "node" of both: a node ID is a whole name
		withState := tp.Draw(2) == 0
		local := tp.Draw(10) == 0 // the local caller marks the request as a credential fetch

		// order of the lookup result for this case: rotate / permute records under one node ID
		perm := tp.Perm(4)
		w.St.NodeOrder = func(ids []string) []string {
			out := make([]string, 0, len(ids))
			for _, p := range perm {
				if p < len(ids) {
					out = append(out, ids[p])
				}
			}
			return out
		}

		nonce := make([]byte, nodeenrollment.NonceSize)
		copy(nonce, tp.Bytes(8))
		req := &types.GenerateServerCertificatesRequest{CertificatePublicKeyPkix: claim.Pkix, Nonce: nonce, NodeId: nodeIDHint, SkipVerification: local}
		if nonceSigner != nil {
			req.NonceSignature = ed25519.Sign(nonceSigner.Priv, nonce)
			if tp.Draw(12) == 0 {
				req.NonceSignature[tp.Draw(64)] ^= 1 << tp.Draw(8) // forged
				nonceSigner = nil
			}
		}
		if nonceSigner != nil && tp.Draw(12) == 0 {
			// the signature covers a nonce, but not the one in the request: the request's nonce goes on after the signed part
			// (or is only its beginning)
			if tp.Draw(3) > 0 {
				nonce = append(append([]byte{}, nonce...), tp.Bytes(tp.Range(1, 40))...)
			} else {
				nonce = nonce[:tp.Range(1, len(nonce)-1)]
			}
			req.Nonce = nonce
			nonceSigner = nil
			r.Count("cfg.signature_over_other_length_of_nonce", 1)
		}
		claimKid := claim.KeyId
		var stateBytes []byte
		if withState {
			st := mkStruct(r, 2+tp.Draw(2))
			stateBytes = detMarshal(st)
			req.ClientState = stateBytes
			if stateSigner != nil {
				req.ClientStateSignature = ed25519.Sign(stateSigner.Priv, stateBytes)
			}
			if tp.Draw(10) == 0 {
				// something that is not a signature at all: too short or too long (cut from a real one, or random)
				n := tp.Range(1, 130)
				if n == ed25519.SignatureSize {
					n++
				}
				sig := append(append([]byte{}, req.ClientStateSignature...), tp.Bytes(130)...)
				req.ClientStateSignature = sig[:n]
				stateSigner = nil
			}
		}
		if nonceSigner != nil && tp.Draw(14) == 0 {
			n := tp.Range(1, 130)
			if n == ed25519.SignatureSize {
				n++
			}
			req.NonceSignature = append(append([]byte{}, req.NonceSignature...), tp.Bytes(130)...)[:n]
			nonceSigner = nil
		}
		if tp.Draw(20) == 0 {
			// the claimed key is a well-formed public key of another algorithm: nothing verifies under it, nothing panics
			req.CertificatePublicKeyPkix = foreignAlgorithmPkix(tp.Draw(2))
			claimKid = "" // no record can be filed under that key; the node-ID path is judged as always (by the records' keys)
			req.SkipVerification, local = false, false
			r.Count("cfg.claimed_key_of_other_algorithm", 1)
		}

		// reference model: the lookup scope
		var scope []*Ident
		if nodeIDHint != "" && loader {
			switch nodeIDHint {
			case "node-N":
				scope = inStorage(underN)
			case "node-N2":
				scope = inStorage(underM)
			}
		} else if id := byKeyID[claimKid]; id != nil && !removed[id.KeyId] {
			scope = []*Ident{id}
		}
		verifies := func(rec *Ident) bool {
			if nonceSigner == nil || !bytes.Equal(nonceSigner.Pub, rec.Pub) {
				return false
			}
			if withState {
				if stateSigner == nil || !bytes.Equal(stateSigner.Pub, rec.Pub) {
					return false
				}
			}
			return true
		}
		expect := local
		for _, rec := range scope {
			if verifies(rec) {
				expect = true
			}
		}

		var resp *types.GenerateServerCertificatesResponse
		var err error
		if p, msg, site := kernel.Guard(func() {
			resp, err = nodetls.GenerateServerCertificates(w.Ctx, w.Storage, req, w.Opts()...)
		}); p {
			r.Violate("no-panic", "generate-panic/"+site, "GenerateServerCertificates panicked: %s", msg)
		}
		r.Count("cases", 1)
		sn := func(i *Ident) string {
			if i == nil {
				return "none"
			}
			return i.Name
		}
		scopeNames := []string{}
		for _, s := range scope {
			scopeNames = append(scopeNames, s.Name)
		}
		desc := fmt.Sprintf("claim=%s nonceSig=%s state=%v stateSig=%s nodeID=%q loader=%v local=%v scope=%v order=%v", claim.Name, sn(nonceSigner), withState, sn(stateSigner), nodeIDHint, loader, local, scopeNames, perm)
		path := "key-id"
		if nodeIDHint != "" && loader {
			path = "node-id"
		}
		class := fmt.Sprintf("%s/nonce-%s/state-%s", path, sigClass(nonceSigner, scope), stateClass(withState, stateSigner, scope))
		if !expect {
			if err == nil || resp != nil {
				r.Violate("mint-only-verified", "minted-unverified/"+path, "certificates minted without a valid signature by a record in scope: %s", desc)
			}
		} else {
			if err != nil {
				r.Violate("mint-verified", "refused-verified/"+path, "request verified by a stored record was refused: %v: %s", shortErr(err), desc)
			}
			if len(resp.CertificateBundles) != 2 || len(resp.CertificatePrivateKeyPkcs8) == 0 {
				r.Violate("mint-verified", "response-incomplete", "want 2 bundles and a key: %s", desc)
			}
			if withState != (resp.ClientState != nil) {
				r.Violate("mint-verified", "client-state-presence", "client state presence mismatch: %s", desc)
			}
			if withState {
				b, _ := proto.Marshal(resp.ClientState)
				if !bytes.Equal(b, stateBytes) {
					// compare semantically
					if !proto.Equal(resp.ClientState, mustStruct(stateBytes)) {
						r.Violate("mint-verified", "client-state-differs", "returned client state differs from the submitted one: %s", desc)
					}
				}
			}
			for _, b := range resp.CertificateBundles {
				c, perr := x509.ParseCertificate(b.CertificateDer)
				if perr != nil {
					r.Violate("mint-verified", "leaf-unparseable", "%v", perr)
				}
				found := false
				for _, n := range c.DNSNames {
					if n == base64.RawStdEncoding.EncodeToString(nonce) {
						found = true
					}
				}
				if !found {
					r.Violate("mint-verified", "nonce-not-in-leaf", "minted leaf lacks the request nonce: %s", desc)
				}
			}
		}
		r.FP(class, expect, len(scope), perm[0], local)
		r.StateFP(class, expect)
		if ci == 0 && r.Index%300 == 0 {
			r.SetSample(map[string]any{"case": desc, "expected_success": expect, "error": shortErr(err)})
		}
	}
}

func sigClass(signer *Ident, scope []*Ident) string {
	if signer == nil {
		return "none"
	}
	for _, s := range scope {
		if bytes.Equal(s.Pub, signer.Pub) {
			return "in-scope"
		}
	}
	if signer.Name == "unregistered" {
		return "unregistered"
	}
	return "other-registered"
}

func stateClass(with bool, signer *Ident, scope []*Ident) string {
	if !with {
		return "absent"
	}
	return sigClass(signer, scope)
}

// Pick2 is Pick for string literals (helps type inference).
func Pick2(tp *kernel.Tape, xs ...string) string { return xs[tp.Draw(len(xs))] }

func init() {
	register(&Prop{ID: "C05", Engine: propC05})
}
