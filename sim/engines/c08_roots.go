//go:build verif

package engines

import (
	"math"
	"bytes"
	"crypto/ed25519"
	"crypto/rand"
	"crypto/x509"
	"crypto/x509/pkix"
	"fmt"
	"math/big"
	"sort"
	"time"

	"github.com/hashicorp/nodeenrollment"
	"github.com/hashicorp/nodeenrollment/rotation"
	"github.com/hashicorp/nodeenrollment/types"
	"google.golang.org/protobuf/proto"
	"google.golang.org/protobuf/types/known/timestamppb"

	"verifsim/kernel"
)

type rootCfg struct {
	L, nb, na time.Duration
}

func (c rootCfg) opts() []nodeenrollment.Option {
	return []nodeenrollment.Option{
		nodeenrollment.WithCertificateLifetime(c.L),
		nodeenrollment.WithNotBeforeClockSkew(c.nb),
		nodeenrollment.WithNotAfterClockSkew(c.na),
	}
}

func drawRootCfg(tp *kernel.Tape) rootCfg {
	var c rootCfg
	switch tp.Draw(6) {
	case 0:
		c.L = nodeenrollment.DefaultCertificateLifetime
		c.nb = nodeenrollment.DefaultNotBeforeClockSkewDuration
		c.na = nodeenrollment.DefaultNotAfterClockSkewDuration
		return c
	case 1:
		c.L = time.Duration(tp.Range(1, 20)) // nanosecond-scale lifetimes
	case 2:
		if tp.Draw(3) == 0 {
			// "never expire": lifetimes of centuries, up to the largest duration there is; lifetime + skew may exceed it
			const y = 365 * 24 * time.Hour
			c.L = []time.Duration{250 * y, 290 * y, math.MaxInt64 - time.Minute, math.MaxInt64}[tp.Draw(4)]
			c.nb = []time.Duration{0, -5 * time.Minute}[tp.Draw(2)]
			c.na = []time.Duration{0, 5 * time.Minute, 50 * y}[tp.Draw(3)]
			return c
		}
		c.L = tp.DurLog(time.Nanosecond, 10*365*24*time.Hour)
	default:
		c.L = tp.DurLog(time.Nanosecond, 10*365*24*time.Hour)
	}
	// skews up to a quarter of the lifetime, or (one run in four) far larger than it ("skew only" set-ups)
	sk := c.L/4 + 1
	if tp.Draw(4) == 0 {
		sk = 8*c.L + 1
	}
	if tp.Draw(3) != 0 {
		c.nb = -tp.DurLog(time.Nanosecond, sk)
	}
	if tp.Draw(3) != 0 {
		c.na = tp.DurLog(time.Nanosecond, sk)
	}
	if c.L+c.na < 2 {
		c.na += 2 // below 2ns "half the remaining life" is 0 and the shift clause is vacuous (excluded from generation)
	}
	return c
}

// makeRoot builds a real self-signed CA root with chosen proto validity (what the library's decision reads).
func makeRoot(id nodeenrollment.KnownId, nb, na time.Time) *types.RootCertificate {
	pub, priv, _ := ed25519.GenerateKey(rand.Reader)
	pk8, _ := x509.MarshalPKCS8PrivateKey(priv)
	pkixB, _ := x509.MarshalPKIXPublicKey(pub)
	kid := keyID(pkixB)
	tmpl := &x509.Certificate{
		AuthorityKeyId: pkixB, SubjectKeyId: pkixB, Subject: pkix.Name{CommonName: kid}, DNSNames: []string{kid, nodeenrollment.CommonDnsName},
		KeyUsage:     x509.KeyUsageDigitalSignature | x509.KeyUsageKeyEncipherment | x509.KeyUsageKeyAgreement | x509.KeyUsageCertSign,
		SerialNumber: big.NewInt(7), NotBefore: nb, NotAfter: na, BasicConstraintsValid: true, IsCA: true,
	}
	der, err := x509.CreateCertificate(rand.Reader, tmpl, tmpl, pub, priv)
	if err != nil {
		return nil
	}
	return &types.RootCertificate{Id: string(id), PublicKeyPkix: pkixB, PrivateKeyPkcs8: pk8, PrivateKeyType: types.KEYTYPE_ED25519,
		CertificateDer: der, NotBefore: timestamppb.New(nb), NotAfter: timestamppb.New(na)}
}

type rootOutcome int

const (
	oNoOp rootOutcome = iota
	oPromote
	oRemintNext
	oStartOver
	oOther
)

func (o rootOutcome) String() string {
	return [...]string{"no-op", "promote+mint-next", "re-mint-next", "start-over", "other"}[o]
}

// decideRoots is the statement's decision table. rel[i] is the position of instant i
// (0 cNB,1 cNA,2 nNB,3 nNA) relative to now: -1 before, +1 after (ties were resolved by the caller).
func decideRoots(missing bool, rel [4]int) rootOutcome {
	if missing {
		return oStartOver
	}
	curNotYet := rel[0] > 0
	curExpired := rel[1] < 0
	nextNotYet := rel[2] > 0
	nextExpired := rel[3] < 0
	nextValid := !nextNotYet && !nextExpired
	switch {
	case curNotYet:
		return oStartOver
	case curExpired:
		if nextValid {
			return oPromote
		}
		return oStartOver
	default: // current valid
		switch {
		case nextValid:
			return oPromote
		case nextExpired && nextNotYet:
			return oOther // nonsensical next (expired and not yet valid): statement gives two answers, accept both
		case nextExpired:
			return oRemintNext
		default:
			return oNoOp
		}
	}
}

func acceptableRootOutcomes(missing bool, inst [4]time.Time, now time.Time) map[rootOutcome]bool {
	acc := map[rootOutcome]bool{}
	var ties []int
	var rel [4]int
	for i, t := range inst {
		switch {
		case t.Before(now):
			rel[i] = -1
		case t.After(now):
			rel[i] = 1
		default:
			ties = append(ties, i)
		}
	}
	for mask := 0; mask < 1<<len(ties); mask++ {
		r := rel
		for j, i := range ties {
			if mask&(1<<j) != 0 {
				r[i] = 1
			} else {
				r[i] = -1
			}
		}
		o := decideRoots(missing, r)
		if o == oOther {
			acc[oRemintNext] = true
			acc[oNoOp] = true
		} else {
			acc[o] = true
		}
	}
	return acc
}

func classifyRoots(before, after *types.RootCertificates) rootOutcome {
	if before == nil || before.Current == nil || before.Next == nil {
		return oStartOver
	}
	oc, on := before.Current.PublicKeyPkix, before.Next.PublicKeyPkix
	ac, an := after.Current.PublicKeyPkix, after.Next.PublicKeyPkix
	isOld := func(k []byte) bool { return bytes.Equal(k, oc) || bytes.Equal(k, on) }
	switch {
	case bytes.Equal(ac, oc) && bytes.Equal(an, on):
		return oNoOp
	case bytes.Equal(ac, on) && !isOld(an):
		return oPromote
	case bytes.Equal(ac, oc) && !isOld(an):
		return oRemintNext
	case !isOld(ac) && !isOld(an):
		return oStartOver
	}
	return oOther
}

func checkRootWellFormed(r *kernel.Run, where string, rc *types.RootCertificate, wantID nodeenrollment.KnownId) *x509.Certificate {
	if rc == nil {
		r.Violate("roots-wellformed", "root-missing", "%s: %s root missing", where, wantID)
	}
	if rc.Id != string(wantID) {
		r.Violate("roots-wellformed", "root-wrong-label", "%s: root labelled %q, want %q", where, rc.Id, wantID)
	}
	cert, err := x509.ParseCertificate(rc.CertificateDer)
	if err != nil {
		r.Violate("roots-wellformed", "root-unparseable", "%s: %s root does not parse: %v", where, wantID, err)
	}
	if !cert.IsCA || !cert.BasicConstraintsValid {
		r.Violate("roots-wellformed", "root-not-ca", "%s: %s root is not a CA", where, wantID)
	}
	if err := cert.CheckSignature(cert.SignatureAlgorithm, cert.RawTBSCertificate, cert.Signature); err != nil {
		r.Violate("roots-wellformed", "root-not-self-signed", "%s: %s root is not self-signed: %v", where, wantID, err)
	}
	pk, _ := x509.MarshalPKIXPublicKey(cert.PublicKey)
	if !bytes.Equal(pk, rc.PublicKeyPkix) {
		r.Violate("roots-wellformed", "root-key-mismatch", "%s: %s root record key differs from certificate key", where, wantID)
	}
	priv, err := x509.ParsePKCS8PrivateKey(rc.PrivateKeyPkcs8)
	if err != nil {
		r.Violate("roots-wellformed", "root-private-key-unparseable", "%s: %s root private key: %v", where, wantID, err)
	}
	if ep, ok := priv.(ed25519.PrivateKey); !ok || !bytes.Equal(ep.Public().(ed25519.PublicKey), cert.PublicKey.(ed25519.PublicKey)) {
		r.Violate("roots-wellformed", "root-private-key-mismatch", "%s: %s root private key does not match its certificate", where, wantID)
	}
	return cert
}

// rotateOnce performs one RotateRootCertificates call and checks every clause of C08 against the state before.
// fromEmptyHistory: all states reachable from empty storage (overlap asserted unconditionally).
func rotateOnce(r *kernel.Run, w *World, cfg rootCfg, reinit, skip bool, fromEmptyHistory bool, where string) (*types.RootCertificates, error) {
	before, berr := types.LoadRootCertificates(w.Ctx, w.Inner, w.Opts()...)
	var beforeRaw *types.RootCertificates
	{
		raw := &types.RootCertificates{Id: nodeenrollment.RootsMessageId}
		if err := w.Inner.Load(w.Ctx, raw); err == nil {
			beforeRaw = raw
		}
	}
	missing := berr != nil || before == nil || before.Current == nil || before.Next == nil
	now := time.Now()
	opts := w.Opts(cfg.opts()...)
	if fromEmptyHistory && missing {
		// bootstrap: the application attaches state to the roots record once; later calls pass none
		opts = append(opts, nodeenrollment.WithState(mkStruct(r, 2)))
	}
	if reinit {
		opts = append(opts, nodeenrollment.WithReinitializeRoots(true))
	}
	if skip {
		opts = append(opts, nodeenrollment.WithSkipStorage(true))
	}
	var got *types.RootCertificates
	var err error
	if p, msg, site := kernel.Guard(func() { got, err = rotation.RotateRootCertificates(w.Ctx, w.Storage, opts...) }); p {
		r.Violate("no-panic", "rotate-roots-panic/"+site, "%s: RotateRootCertificates panicked: %s", where, msg)
	}
	if time.Now() != now {
		r.HarnessErr("clock moved during a rotation call")
	}
	r.Count("ops.rotate_roots", 1)
	if err != nil {
		r.Count("probe.rotate_error", 1)
		if reinit && beforeRaw == nil {
			// Remove of an absent record: the file back end reports an error, which the call propagates. Not judged.
			r.Count("probe.reinit_on_empty_error", 1)
			return nil, err
		}
		r.Violate("rotate-succeeds", "rotate-unexpected-error", "%s: rotation failed on fault-free storage (cfg %+v reinit=%v): %v", where, cfg, reinit, err)
	}
	if got == nil {
		r.Violate("roots-wellformed", "rotate-nil-result", "%s: nil result without error", where)
	}
	curCert := checkRootWellFormed(r, where, got.Current, nodeenrollment.CurrentId)
	nextCert := checkRootWellFormed(r, where, got.Next, nodeenrollment.NextId)
	_ = nextCert

	// storage == return value
	if !skip {
		stored, lerr := types.LoadRootCertificates(w.Ctx, w.Inner, w.Opts()...)
		if lerr != nil {
			r.Violate("roots-durable", "roots-not-stored", "%s: call succeeded but roots cannot be loaded: %v", where, lerr)
		}
		// "storage and the return value hold the same two roots": the roots are compared, not the application state kept
		// on the record (a call that is handed WithState stores it without echoing it)
		if !proto.Equal(stored.GetCurrent(), got.GetCurrent()) || !proto.Equal(stored.GetNext(), got.GetNext()) {
			r.Violate("roots-durable", "roots-stored-differs", "%s: stored roots differ from the returned ones", where)
		}
	}

	var accept map[rootOutcome]bool
	if reinit {
		accept = map[rootOutcome]bool{oStartOver: true}
	} else if missing {
		accept = map[rootOutcome]bool{oStartOver: true}
	} else {
		accept = acceptableRootOutcomes(false, [4]time.Time{before.Current.NotBefore.AsTime(), before.Current.NotAfter.AsTime(), before.Next.NotBefore.AsTime(), before.Next.NotAfter.AsTime()}, now)
	}
	var obs rootOutcome
	if missing {
		obs = oStartOver
		if reinit && !missing {
			obs = classifyRoots(before, got)
		}
	} else {
		obs = classifyRoots(before, got)
	}
	r.Count("oracle.outcome."+obs.String(), 1)
	if !accept[obs] {
		var want []string
		for o := range accept {
			want = append(want, o.String())
		}
		sort.Strings(want)
		r.Violate("decision-table", fmt.Sprintf("roots-decision/%s-instead-of-%s", obs, want[0]),
			"%s: now=%v stored cur=[%v,%v] next=[%v,%v] reinit=%v: call did %q, statement allows %v", where, now.UnixNano(),
			tn(before, 0), tn(before, 1), tn(before, 2), tn(before, 3), reinit, obs, want)
	}

	cNB, cNA := got.Current.NotBefore.AsTime(), got.Current.NotAfter.AsTime()
	nNB, nNA := got.Next.NotBefore.AsTime(), got.Next.NotAfter.AsTime()
	if cNB.After(now) || cNA.Before(now) {
		r.Violate("current-valid", "current-not-valid-now", "%s: after %s current [%v,%v] is not valid at now=%v", where, obs, cNB.UnixNano(), cNA.UnixNano(), now.UnixNano())
	}
	mintedNext := obs != oNoOp
	mintedCur := obs == oStartOver
	if mintedNext || fromEmptyHistory {
		if !nNB.Before(cNA) && !(nNB.Equal(cNA) && cNA.Equal(now)) {
			r.Violate("overlap", "next-does-not-overlap-current", "%s: after %s next begins %v, current ends %v (now %v)", where, obs, nNB.UnixNano(), cNA.UnixNano(), now.UnixNano())
		}
	} else if before != nil && before.Next.NotBefore.AsTime().Before(before.Current.NotAfter.AsTime()) {
		if !nNB.Before(cNA) {
			r.Violate("overlap", "overlap-lost", "%s: stored roots overlapped, result does not", where)
		}
	}
	wantCurNB, wantCurNA := now.Add(cfg.nb), now.Add(cfg.L).Add(cfg.na)
	if mintedCur {
		if !cNB.Equal(wantCurNB) || !cNA.Equal(wantCurNA) {
			r.Violate("minted-window", "current-window-wrong", "%s: minted current [%v,%v], want [%v,%v]", where, cNB.UnixNano(), cNA.UnixNano(), wantCurNB.UnixNano(), wantCurNA.UnixNano())
		}
		if !(nNB.After(cNB) && nNA.After(cNA)) {
			r.Violate("minted-window", "next-not-later-than-current", "%s: from scratch next [%v,%v] must begin and end later than current [%v,%v]", where, nNB.UnixNano(), nNA.UnixNano(), cNB.UnixNano(), cNA.UnixNano())
		}
	}
	if mintedNext {
		shift := cNA.Sub(now) / 2
		if !nNB.Equal(wantCurNB.Add(shift)) || !nNA.Equal(wantCurNA.Add(shift)) {
			r.Violate("minted-window", "next-window-wrong", "%s: minted next [%v,%v], want [%v,%v] (= fresh window shifted by half of current's remaining life %v)", where,
				nNB.UnixNano(), nNA.UnixNano(), wantCurNB.Add(shift).UnixNano(), wantCurNA.Add(shift).UnixNano(), shift)
		}
		// proto timestamps == certificate validity (x509 has one-second resolution)
		if !nextCert.NotBefore.Equal(nNB.Truncate(time.Second)) || !nextCert.NotAfter.Equal(nNA.Truncate(time.Second)) {
			r.Violate("minted-window", "next-cert-validity-differs", "%s: next certificate validity [%v,%v] differs from record [%v,%v]", where, nextCert.NotBefore, nextCert.NotAfter, nNB, nNA)
		}
	}
	if mintedCur {
		if !curCert.NotBefore.Equal(cNB.Truncate(time.Second)) || !curCert.NotAfter.Equal(cNA.Truncate(time.Second)) {
			r.Violate("minted-window", "current-cert-validity-differs", "%s: current certificate validity differs from record", where)
		}
	}
	if obs == oNoOp && !reinit {
		if !proto.Equal(before, got) {
			r.Violate("no-op", "noop-changed-something", "%s: no-op call returned a record different from the stored one", where)
		}
		if !skip {
			raw := &types.RootCertificates{Id: nodeenrollment.RootsMessageId}
			if err := w.Inner.Load(w.Ctx, raw); err != nil || !proto.Equal(raw, beforeRaw) {
				r.Violate("no-op", "noop-rewrote-storage", "%s: no-op call changed the stored record", where)
			}
		}
	}
	if obs == oPromote {
		// promoted root keeps its key, certificate and validity
		if !proto.Equal(stripID(before.Next), stripID(got.Current)) {
			r.Violate("promote", "promoted-root-altered", "%s: promoted root differs from the previous next", where)
		}
	}
	if obs == oRemintNext && !proto.Equal(before.Current, got.Current) {
		r.Violate("promote", "current-altered-on-remint", "%s: current changed although only next was re-minted", where)
	}
	return got, nil
}

func stripID(rc *types.RootCertificate) *types.RootCertificate {
	c := proto.Clone(rc).(*types.RootCertificate)
	c.Id = ""
	return c
}

func tn(rc *types.RootCertificates, i int) int64 {
	if rc == nil || rc.Current == nil || rc.Next == nil {
		return -1
	}
	switch i {
	case 0:
		return rc.Current.NotBefore.AsTime().UnixNano()
	case 1:
		return rc.Current.NotAfter.AsTime().UnixNano()
	case 2:
		return rc.Next.NotBefore.AsTime().UnixNano()
	}
	return rc.Next.NotAfter.AsTime().UnixNano()
}

// C08: root rotation leaves two well-formed overlapping roots; decision table.
func propC08(r *kernel.Run) {
	tp := r.Tape
	backend := backends[tp.Draw(3)]
	sw := tp.Draw(2) == 1
	w := NewWorld(r, "server", backend, sw, false)
	cfg := drawRootCfg(tp)
	r.Count("cfg.backend."+backend, 1)
	if sw {
		r.Count("cfg.storage_wrapper", 1)
	}
	if tp.Draw(2) == 0 {
		// (a) state injection: one weak ordering of {cNB,cNA,nNB,nNA,now}
		r.Count("cfg.mode.inject", 1)
		kind := tp.Draw(10)
		var ranks [5]int
		for i := range ranks {
			ranks[i] = tp.Draw(5)
		}
		// dense-rank
		uniq := map[int]bool{}
		for _, v := range ranks {
			uniq[v] = true
		}
		var vals []int
		for v := range uniq {
			vals = append(vals, v)
		}
		sort.Ints(vals)
		dense := map[int]int{}
		for i, v := range vals {
			dense[v] = i
		}
		for i := range ranks {
			ranks[i] = dense[ranks[i]]
		}
		gap := tp.DurLog(time.Nanosecond, 30*24*time.Hour)
		// put "now" at rank[4]: advance the clock so that earlier ranks are in the past
		r.Sleep(time.Duration(ranks[4])*gap + time.Duration(tp.Draw(3))*time.Hour)
		now := time.Now()
		at := func(i int) time.Time { return now.Add(time.Duration(ranks[i]-ranks[4]) * gap) }
		rec := &types.RootCertificates{Id: nodeenrollment.RootsMessageId}
		switch kind {
		case 0: // nothing stored
		case 1: // half-missing record (only possible by writing the raw record)
			rec.Current = makeRoot(nodeenrollment.CurrentId, at(0), at(1))
		case 2:
			rec.Next = makeRoot(nodeenrollment.NextId, at(2), at(3))
		default:
			rec.Current = makeRoot(nodeenrollment.CurrentId, at(0), at(1))
			rec.Next = makeRoot(nodeenrollment.NextId, at(2), at(3))
			if tp.Draw(2) == 0 {
				// the application keeps state on the roots record: whatever the call does, what it returns is what is stored
				rec.State = mkStruct(r, 2)
				r.Count("cfg.roots_record_with_state", 1)
			}
		}
		switch {
		case kind == 0:
		case kind <= 2:
			// a half record cannot go through RootCertificates.Store (it refuses); write it raw
			if err := w.Inner.Store(w.Ctx, rec); err != nil {
				r.HarnessErr("raw store: %v", err)
			}
		default:
			if err := rec.Store(w.Ctx, w.Inner, w.Opts()...); err != nil {
				r.HarnessErr("store injected roots: %v", err)
			}
		}
		reinit := tp.Draw(6) == 0
		skip := tp.Draw(12) == 0 // also together with reinitialize: the caller persists the result itself
		order := fmt.Sprint(ranks, kind <= 2, reinit)
		if kind > 2 {
			r.Count("probe.weak_order_injected", 1)
		}
		if kind == 1 || kind == 2 {
			// half-missing: LoadRootCertificates itself reports an error for such a record; the statement says "starts over"
			_, err := types.LoadRootCertificates(w.Ctx, w.Inner, w.Opts()...)
			if err != nil {
				r.Count("probe.half_missing_unloadable", 1)
			}
		}
		_, err := rotateOnceHalf(r, w, cfg, reinit, skip, kind == 1 || kind == 2, "inject "+order)
		_ = err
		r.FP("inject", order, backend, sw)
		r.StateFP(order)
		if r.Index%500 == 0 {
			r.SetSample(map[string]any{"mode": "inject", "ranks[cNB,cNA,nNB,nNA,now]": ranks, "kind": kind, "gap": gap.String(), "cfg": fmt.Sprintf("%+v", cfg), "reinit": reinit, "backend": backend})
		}
		return
	}
	// (b) histories from empty storage
	r.Count("cfg.mode.history", 1)
	n := tp.Range(2, r.Deep(12, 40))
	span := cfg.L + cfg.na - cfg.nb
	if span <= 0 || span > 20*365*24*time.Hour {
		span = 20 * 365 * 24 * time.Hour // century-scale lifetimes: the run does not move the clock that far
	}
	var hist []string
	for i := 0; i < n; i++ {
		reinit := tp.Draw(15) == 0
		where := fmt.Sprintf("history call %d", i)
		got, err := rotateOnce(r, w, cfg, reinit, false, true, where)
		if err == nil && got != nil {
			hist = append(hist, fmt.Sprint(i))
		}
		// jump: biased to land near a stored instant
		var jump time.Duration
		switch tp.Draw(5) {
		case 0:
			jump = time.Duration(tp.Draw(3))
		case 1, 2:
			if got != nil {
				inst := []time.Time{got.Current.NotAfter.AsTime(), got.Next.NotBefore.AsTime(), got.Next.NotAfter.AsTime()}
				t := inst[tp.Draw(3)].Add(time.Duration(tp.Draw(5)-2) * time.Nanosecond)
				if d := time.Until(t); d > 0 {
					jump = d
				}
			}
		default:
			jump = tp.DurLog(time.Nanosecond, 3*span+1)
		}
		r.Sleep(jump)
		hist = append(hist, jump.String())
	}
	r.FP("history", fmt.Sprintf("%+v", cfg), len(hist), backend, sw, r.Seed)
	if r.Index%500 == 1 {
		r.SetSample(map[string]any{"mode": "history", "cfg": fmt.Sprintf("%+v", cfg), "calls_and_jumps": hist, "backend": backend, "storage_wrapper": sw})
	}
}

// rotateOnceHalf handles the half-missing record case, where LoadRootCertificates fails by itself:
// the statement says the call starts over; an error is tolerated only if the library cannot load the record at all.
func rotateOnceHalf(r *kernel.Run, w *World, cfg rootCfg, reinit, skip, half bool, where string) (*types.RootCertificates, error) {
	if !half || reinit {
		return rotateOnce(r, w, cfg, reinit, skip, false, where)
	}
	var got *types.RootCertificates
	var err error
	if p, msg, site := kernel.Guard(func() {
		got, err = rotation.RotateRootCertificates(w.Ctx, w.Storage, w.Opts(cfg.opts()...)...)
	}); p {
		r.Violate("no-panic", "rotate-roots-panic/"+site, "%s: RotateRootCertificates panicked: %s", where, msg)
	}
	r.Count("ops.rotate_roots", 1)
	if err != nil {
		// storage holds a record the library's own loader rejects; failing closed is accepted here
		r.Count("probe.half_missing_rejected", 1)
		return nil, err
	}
	checkRootWellFormed(r, where, got.Current, nodeenrollment.CurrentId)
	checkRootWellFormed(r, where, got.Next, nodeenrollment.NextId)
	now := time.Now()
	if got.Current.NotBefore.AsTime().After(now) || got.Current.NotAfter.AsTime().Before(now) {
		r.Violate("current-valid", "current-not-valid-now", "%s: current not valid after start-over", where)
	}
	return got, nil
}

func init() {
	register(&Prop{ID: "C08", Engine: propC08})
}
