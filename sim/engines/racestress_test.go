//go:build verif

package engines

import (
	"bytes"
	"context"
	"crypto/ecdh"
	"crypto/ed25519"
	"crypto/rand"
	"crypto/x509"
	"encoding/base64"
	"strings"
	"fmt"
	mathrand "math/rand"
	"net"
	"os"
	"sync"
	"testing"
	"time"

	"github.com/hashicorp/nodeenrollment"
	nodenet "github.com/hashicorp/nodeenrollment/net"
	"github.com/hashicorp/nodeenrollment/protocol"
	"github.com/hashicorp/nodeenrollment/registration"
	"github.com/hashicorp/nodeenrollment/rotation"
	"github.com/hashicorp/nodeenrollment/storage/inmem"
	nodetls "github.com/hashicorp/nodeenrollment/tls"
	"github.com/hashicorp/nodeenrollment/types"
	"google.golang.org/protobuf/proto"
	"google.golang.org/protobuf/types/known/structpb"
)

// TestRaceStress is the AUXILIARY free-running stress for the "no data races" clauses of C15, C18 and C19.
// It is built with -race by bin/racestress, uses real goroutines, real time and (for C15) loopback TCP, and is
// seeded only in its workload choices: a report is re-found by re-running the same seed, not replayed exactly.
func TestRaceStress(t *testing.T) {
	prop := os.Getenv("VERIF_RACE")
	if prop == "" {
		t.Skip("VERIF_RACE not set (run through bin/racestress)")
	}
	seed := envInt("VERIF_SEED", 1)
	budget := time.Duration(envInt("VERIF_BUDGET_MS", 10000)) * time.Millisecond
	deadline := time.Now().Add(budget)
	iters := 0
	for time.Now().Before(deadline) {
		rng := mathrand.New(mathrand.NewSource(seed + int64(iters)))
		switch prop {
		case "C18":
			raceMux(t, rng)
		case "C19":
			raceKV(t, rng)
		case "C15":
			raceListener(t, rng)
		case "C17":
			raceSplit(t, rng)
		case "C11":
			raceCrypto(t, rng)
		case "C10":
			raceRotation(t, rng)
		case "C04":
			raceEnroll(t, rng)
		case "C05":
			raceServerCerts(t, rng)
		case "C06":
			raceTokens(t, rng)
		default:
			t.Fatalf("no race stress for %s", prop)
		}
		iters++
	}
	fmt.Printf("RACESTRESS %s iterations=%d\n", prop, iters)
}

type countingConn struct {
	net.Conn
	mu     sync.Mutex
	closes int
}

func (c *countingConn) Close() error { c.mu.Lock(); c.closes++; c.mu.Unlock(); return nil }

func raceMux(t *testing.T, rng *mathrand.Rand) {
	parent, cancel := context.WithCancel(context.Background())
	defer cancel()
	l, err := nodenet.NewMultiplexingListener(parent, &net.TCPAddr{})
	if err != nil {
		t.Fatal(err)
	}
	var wg sync.WaitGroup
	n := 16 + rng.Intn(48)
	for i := 0; i < n; i++ {
		wg.Add(1)
		switch k := rng.Intn(10); {
		case k < 5:
			go func() { defer wg.Done(); l.IngressConn(&countingConn{}, nil) }()
		case k < 8:
			go func() {
				defer wg.Done()
				if c, err := l.Accept(); err == nil && c != nil {
					c.Close()
				}
			}()
		case k < 9:
			d := time.Duration(rng.Intn(2000)) * time.Microsecond
			go func() { defer wg.Done(); time.Sleep(d); l.Close() }()
		default:
			d := time.Duration(rng.Intn(2000)) * time.Microsecond
			go func() { defer wg.Done(); time.Sleep(d); cancel() }()
		}
	}
	time.Sleep(time.Duration(rng.Intn(3)) * time.Millisecond)
	l.Close()
	// accepts after close drain nothing; make sure everybody returns
	done := make(chan struct{})
	go func() { wg.Wait(); close(done) }()
	select {
	case <-done:
	case <-time.After(120 * time.Second):
		// not a matter of load: every operation here is a few lock acquisitions and channel operations
		fmt.Printf("MUX-VIOLATION %d concurrent IngressConn/Accept/Close/cancel operations on one multiplexing listener: some had not returned two minutes after Close returned or was called (blocked for good)\n", n)
		t.Fatalf("C18 race stress: operations did not return after Close")
	}
}

func raceKV(t *testing.T, rng *mathrand.Rand) {
	st, _ := inmem.New(context.Background())
	var wg sync.WaitGroup
	var private []kvIn
	start := make(chan struct{})
	n := 8 + rng.Intn(24)
	for i := 0; i < n; i++ {
		wg.Add(1)
		r2 := mathrand.New(mathrand.NewSource(rng.Int63()))
		// a load-independent fact: a Store that was acknowledged, of a key nobody else touches, is there afterwards. The
		// private stores come first so that they race on the first use of their type on a fresh back end.
		mine := kvIn{Op: "store", Type: kvTypes[r2.Intn(4)], ID: fmt.Sprintf("private-%d", i), Val: fmt.Sprintf("mine-%d", i)}
		private = append(private, mine)
		go func() {
			defer wg.Done()
			<-start
			if out := kvApply(st, mine); out.Err {
				fmt.Printf("KV-VIOLATION store of %s/%s failed on the in-memory back end\n", mine.Type, mine.ID)
				t.Fail()
			}
			for j := 0; j < 50; j++ {
				in := kvIn{Type: kvTypes[r2.Intn(4)], ID: kvIDs[r2.Intn(3)], Op: []string{"store", "load", "remove", "list"}[r2.Intn(4)], Val: fmt.Sprint(j)}
				kvApply(st, in)
			}
		}()
	}
	close(start)
	wg.Wait()
	for _, m := range private {
		if out := kvApply(st, kvIn{Op: "load", Type: m.Type, ID: m.ID}); out.Err || out.NotFound || out.Val != m.Val {
			fmt.Printf("KV-VIOLATION an acknowledged store of %s/%s=%s made while %d goroutines used the in-memory back end is not there afterwards: load returned %+v\n", m.Type, m.ID, m.Val, n, out)
			t.Fail()
		}
		if kvListable(m.Type) {
			if out := kvApply(st, kvIn{Op: "list", Type: m.Type}); out.Err || !strings.Contains(","+out.List+",", ","+m.ID+",") {
				fmt.Printf("KV-VIOLATION %s/%s was stored and acknowledged but List does not show it (%s)\n", m.Type, m.ID, out.List)
				t.Fail()
			}
		}
	}
}

// raceSplit: sub-listeners are registered from several goroutines at once (applications do that at start-up). A fact that
// load cannot disturb: whoever asks for a name gets the same sub-listener every time, during and after the rush.
func raceSplit(t *testing.T, rng *mathrand.Rand) {
	ctx := context.Background()
	st, _ := inmem.New(ctx)
	base, err := net.Listen("tcp", "127.0.0.1:0")
	if err != nil {
		t.Skipf("loopback not available: %v", err)
	}
	defer base.Close()
	il, err := protocol.NewInterceptingListener(&protocol.InterceptingListenerConfiguration{Context: ctx, Storage: st, BaseListener: base})
	if err != nil {
		t.Fatal(err)
	}
	sl, err := nodenet.NewSplitListener(il)
	if err != nil {
		t.Fatal(err)
	}
	names := []string{"alpha", "beta", "gamma", "delta", nodenet.AuthenticatedNonSpecificNextProto, nodenet.UnauthenticatedNextProto}
	n := 4 + rng.Intn(12)
	got := make([]net.Listener, n)
	asked := make([]string, n)
	var wg sync.WaitGroup
	start := make(chan struct{})
	for i := 0; i < n; i++ {
		asked[i] = names[rng.Intn(len(names))]
		wg.Add(1)
		go func() {
			defer wg.Done()
			<-start
			l, err := sl.GetListener(asked[i])
			if err == nil {
				got[i] = l
			}
		}()
	}
	close(start)
	wg.Wait()
	for i := 0; i < n; i++ {
		if got[i] == nil {
			continue
		}
		again, err := sl.GetListener(asked[i])
		if err != nil || again != got[i] {
			fmt.Printf("SPLIT-VIOLATION the sub-listener handed out for %q during concurrent registration is not the one registered under that name afterwards (err=%v): connections for %q would never reach it\n", asked[i], err, asked[i])
			t.Fail()
		}
	}
	il.Close()
}

func raceListener(t *testing.T, rng *mathrand.Rand) {
	ctx := context.Background()
	st, _ := inmem.New(ctx)
	if _, err := rotation.RotateRootCertificates(ctx, st); err != nil {
		t.Fatal(err)
	}
	base, err := net.Listen("tcp", "127.0.0.1:0")
	if err != nil {
		t.Skipf("loopback not available: %v", err)
	}
	opts := make([]nodeenrollment.Option, 0, 8) // spare capacity on purpose
	il, err := protocol.NewInterceptingListener(&protocol.InterceptingListenerConfiguration{Context: ctx, Storage: st, BaseListener: base, Options: opts})
	if err != nil {
		t.Fatal(err)
	}
	// facts that load cannot disturb: the state reported for a connection is the state of one client, no client's state is
	// reported twice, and the record of a node that got in is filed under its own key
	var seenMu sync.Mutex
	var seen []int
	connected := map[int][]byte{}
	var awg sync.WaitGroup
	for i := 0; i < 8; i++ {
		awg.Add(1)
		go func() {
			defer awg.Done()
			for {
				c, err := il.Accept()
				if err != nil {
					if te, ok := err.(interface{ Temporary() bool }); ok && te.Temporary() {
						continue
					}
					return
				}
				if pc, ok := c.(*protocol.Conn); ok {
					cs := pc.ClientState()
					_ = pc.ClientNextProtos()
					if strings.HasPrefix(pc.ConnectionState().NegotiatedProtocol, nodeenrollment.AuthenticateNodeNextProtoV1Prefix) && cs != nil {
						seenMu.Lock()
						seen = append(seen, int(cs.Fields["i"].GetNumberValue()))
						seenMu.Unlock()
					}
				}
				c.Close()
			}
		}()
	}
	var wg sync.WaitGroup
	n := 6 + rng.Intn(18)
	for i := 0; i < n; i++ {
		wg.Add(1)
		useToken := rng.Intn(2) == 0
		i := i
		go func() {
			defer wg.Done()
			ns, _ := inmem.New(ctx)
			s, _ := structpb.NewStruct(map[string]any{"i": float64(i)})
			var dopts []nodeenrollment.Option
			if useToken {
				_, tok, err := registration.CreateServerLedActivationToken(ctx, st, &types.ServerLedRegistrationRequest{}, nodeenrollment.WithState(s))
				if err != nil {
					return
				}
				if _, err := types.NewNodeCredentials(ctx, ns, nodeenrollment.WithActivationToken(tok)); err != nil {
					return
				}
				dopts = append(dopts, nodeenrollment.WithActivationToken(tok))
			} else {
				c, err := types.NewNodeCredentials(ctx, ns)
				if err != nil {
					return
				}
				req, _ := c.CreateFetchNodeCredentialsRequest(ctx)
				if _, err := registration.AuthorizeNode(ctx, st, req); err != nil {
					return
				}
			}
			dctx, cancel := context.WithTimeout(ctx, 10*time.Second)
			defer cancel()
			c, err := protocol.Dial(dctx, ns, base.Addr().String(), append(dopts, nodeenrollment.WithState(s))...)
			if err == nil {
				c.Close()
				if nc, lerr := types.LoadNodeCredentials(ctx, ns, nodeenrollment.CurrentId); lerr == nil {
					seenMu.Lock()
					connected[i] = nc.CertificatePublicKeyPkix
					seenMu.Unlock()
				}
			}
		}()
	}
	wg.Wait()
	il.Close()
	awg.Wait()
	cnt := map[int]int{}
	for _, v := range seen {
		cnt[v]++
		if v < 0 || v >= n {
			fmt.Printf("ISOLATION-VIOLATION a connection reported client state i=%d, which no client of this round supplied\n", v)
			t.Fail()
		}
	}
	for i, pk := range connected {
		if cnt[i] != 1 {
			fmt.Printf("ISOLATION-VIOLATION client %d connected once but its state was reported for %d server-side connections (all reports: %v)\n", i, cnt[i], seen)
			t.Fail()
		}
		kid, _ := nodeenrollment.KeyIdFromPkix(pk)
		ni, err := types.LoadNodeInformation(ctx, st, kid)
		if err != nil || !bytes.Equal(ni.CertificatePublicKeyPkix, pk) {
			fmt.Printf("ISOLATION-VIOLATION client %d authenticated, but the server holds no record of its key under its own key ID (%v)\n", i, err)
			t.Fail()
		}
	}
}

// raceCrypto (C11, auxiliary): message encryption and decryption from many goroutines at once - the way a server uses it,
// one goroutine per connection - over a few shared key pairs, mixing good ciphertexts with modified, truncated, foreign and
// wrong-key-ID ones, so that failing decryptions overlap too. Facts that load cannot disturb: a good ciphertext opens to
// exactly its message; a damaged one fails or still yields the original; nothing panics.
func raceCrypto(t *testing.T, rng *mathrand.Rand) {
	ctx := context.Background()
	const pairs = 3
	eps := make([]*epochKeys, pairs)
	for i := range eps {
		e := &epochKeys{n: i}
		e.nodeEnc, _ = ecdh.X25519().GenerateKey(rand.Reader)
		e.srvEnc, _ = ecdh.X25519().GenerateKey(rand.Reader)
		e.pkix = make([]byte, 44)
		rand.Read(e.pkix)
		eps[i] = e
	}
	// the harness's own key-ID memo is not made for parallel use: build every record before the rush and hand each use a copy
	// (the way a server loads a fresh record per connection)
	credsOf, infoOf := make([]*types.NodeCredentials, pairs), make([]*types.NodeInformation, pairs)
	for i, e := range eps {
		credsOf[i], infoOf[i] = e.creds(), e.info()
	}
	creds := func(i int) *types.NodeCredentials { return proto.Clone(credsOf[i]).(*types.NodeCredentials) }
	info := func(i int) *types.NodeInformation { return proto.Clone(infoOf[i]).(*types.NodeInformation) }
	var wg sync.WaitGroup
	start := make(chan struct{})
	n := 8 + rng.Intn(16)
	for g := 0; g < n; g++ {
		wg.Add(1)
		r2 := mathrand.New(mathrand.NewSource(rng.Int63()))
		g := g
		go func() {
			defer wg.Done()
			defer func() {
				if p := recover(); p != nil {
					fmt.Printf("CRYPTO-VIOLATION message encryption panicked under parallel use: %v\n", p)
					t.Fail()
				}
			}()
			<-start
			for j := 0; j < 40; j++ {
				e := eps[r2.Intn(pairs)]
				msg := &types.FetchNodeCredentialsResponse{EncryptedNodeCredentials: []byte(fmt.Sprintf("payload-%d-%d", g, j)), ServerEncryptionPublicKeyType: types.KEYTYPE_X25519}
				var enc, dec nodeenrollment.X25519KeyProducer = creds(e.n), info(e.n)
				if r2.Intn(2) == 0 {
					enc, dec = info(e.n), creds(e.n)
				}
				ct, err := nodeenrollment.EncryptMessage(ctx, msg, enc)
				if err != nil {
					fmt.Printf("CRYPTO-VIOLATION EncryptMessage failed under parallel use: %v\n", err)
					t.Fail()
					return
				}
				kind := r2.Intn(5)
				bad := append([]byte(nil), ct...)
				switch kind {
				case 0: // untouched
				case 1:
					bad[r2.Intn(len(bad))] ^= 1 << uint(r2.Intn(8))
				case 2:
					bad = bad[:r2.Intn(len(bad))]
				case 3: // another pair's key
					dec = info((e.n + 1) % pairs)
				case 4:
					bad = make([]byte, r2.Intn(40))
					r2.Read(bad)
				}
				out := new(types.FetchNodeCredentialsResponse)
				err = nodeenrollment.DecryptMessage(ctx, bad, dec, out)
				switch {
				case kind == 0 && (err != nil || !proto.Equal(out, msg)):
					fmt.Printf("CRYPTO-VIOLATION a good ciphertext did not open to its message under parallel use: err=%v\n", err)
					t.Fail()
				case kind == 3 && err == nil:
					fmt.Printf("CRYPTO-VIOLATION a ciphertext opened under another pair's key\n")
					t.Fail()
				case kind != 0 && err == nil && !proto.Equal(out, msg):
					fmt.Printf("CRYPTO-VIOLATION a damaged ciphertext (kind %d) opened to a different message\n", kind)
					t.Fail()
				}
			}
		}()
	}
	close(start)
	wg.Wait()
}

// raceRotation (C10, auxiliary): several registered nodes rotate their credentials at the same time against one server
// storage - each node's own rotations are sequential, those of different nodes overlap - while other goroutines send
// requests that must be refused (payload under an unrelated key, payload of one node presented under another node's
// key). Facts that load cannot disturb: a node's honest rotation is honored, its reply opens with the key that node
// shared before the rotation and with nobody else's, the credentials inside are accepted by the new key's owner, the new
// record carries that node's state; a request that must be refused is refused.
func raceRotation(t *testing.T, rng *mathrand.Rand) {
	ctx := context.Background()
	st, _ := inmem.New(ctx)
	if _, err := rotation.RotateRootCertificates(ctx, st); err != nil {
		t.Fatal(err)
	}
	n := 3 + rng.Intn(4)
	type nodeT struct {
		i     int
		store nodeenrollment.Storage
		creds *types.NodeCredentials
		start *types.NodeCredentials // immutable copy of the credentials the node had before the rush
	}
	nodes := make([]*nodeT, n)
	for i := range nodes {
		ns, _ := inmem.New(ctx)
		c, err := types.NewNodeCredentials(ctx, ns)
		if err != nil {
			t.Fatal(err)
		}
		req, err := c.CreateFetchNodeCredentialsRequest(ctx)
		if err != nil {
			t.Fatal(err)
		}
		s, _ := structpb.NewStruct(map[string]any{"i": float64(i)})
		if _, err := registration.AuthorizeNode(ctx, st, req, nodeenrollment.WithState(s)); err != nil {
			t.Fatal(err)
		}
		resp, err := registration.FetchNodeCredentials(ctx, st, req)
		if err != nil {
			t.Fatal(err)
		}
		if c, err = c.HandleFetchNodeCredentialsResponse(ctx, ns, resp); err != nil {
			t.Fatal(err)
		}
		nodes[i] = &nodeT{i: i, store: ns, creds: c, start: proto.Clone(c).(*types.NodeCredentials)}
	}
	bad := func(format string, a ...any) {
		fmt.Printf("ROTATION-VIOLATION "+format+"\n", a...)
		t.Fail()
	}
	// what a refused request looks like is prepared from snapshots taken before the rush (credentials objects are not shared
	// between goroutines afterwards)
	type forged struct {
		name string
		req  *types.RotateNodeCredentialsRequest
	}
	var forgeries []forged
	for i, nd := range nodes {
		stranger, _ := inmem.New(ctx)
		sc, _ := types.NewNodeCredentials(ctx, stranger, nodeenrollment.WithSkipStorage(true))
		fr, _ := sc.CreateFetchNodeCredentialsRequest(ctx)
		// under a key nobody shares with the server: an unregistered node's freshly generated encryption key against the
		// victim's server key
		un := proto.Clone(nd.creds).(*types.NodeCredentials)
		un.EncryptionPrivateKeyBytes = append([]byte(nil), sc.EncryptionPrivateKeyBytes...)
		if ct, err := nodeenrollment.EncryptMessage(ctx, fr, un); err == nil {
			forgeries = append(forgeries, forged{"payload under an unrelated key", &types.RotateNodeCredentialsRequest{CertificatePublicKeyPkix: nd.creds.CertificatePublicKeyPkix, EncryptedFetchNodeCredentialsRequest: ct}})
		}
		other := nodes[(i+1)%n]
		if ct, err := nodeenrollment.EncryptMessage(ctx, fr, proto.Clone(other.creds).(*types.NodeCredentials)); err == nil {
			forgeries = append(forgeries, forged{"payload under another node's key", &types.RotateNodeCredentialsRequest{CertificatePublicKeyPkix: nd.creds.CertificatePublicKeyPkix, EncryptedFetchNodeCredentialsRequest: ct}})
		}
	}
	var wg sync.WaitGroup
	start := make(chan struct{})
	for _, nd := range nodes {
		wg.Add(1)
		nd := nd
		rounds := 1 + rng.Intn(3)
		go func() {
			defer wg.Done()
			<-start
			for k := 0; k < rounds; k++ {
				cur := nd.creds
				ns2, _ := inmem.New(ctx)
				nc, err := types.NewNodeCredentials(ctx, ns2)
				if err != nil {
					bad("node %d: new credentials: %v", nd.i, err)
					return
				}
				fr, err := nc.CreateFetchNodeCredentialsRequest(ctx)
				if err != nil {
					bad("node %d: fetch request: %v", nd.i, err)
					return
				}
				ct, err := nodeenrollment.EncryptMessage(ctx, fr, cur)
				if err != nil {
					bad("node %d: encrypt: %v", nd.i, err)
					return
				}
				resp, err := rotation.RotateNodeCredentials(ctx, st, &types.RotateNodeCredentialsRequest{CertificatePublicKeyPkix: cur.CertificatePublicKeyPkix, EncryptedFetchNodeCredentialsRequest: ct})
				if err != nil {
					bad("node %d: an honest rotation (round %d) was refused while other nodes rotated: %v", nd.i, k, err)
					return
				}
				inner := new(types.FetchNodeCredentialsResponse)
				if err := nodeenrollment.DecryptMessage(ctx, resp.EncryptedFetchNodeCredentialsResponse, cur, inner); err != nil {
					bad("node %d: the reply does not open with the key this node shared before the rotation: %v", nd.i, err)
					return
				}
				for _, o := range nodes {
					if o != nd && nodeenrollment.DecryptMessage(ctx, resp.EncryptedFetchNodeCredentialsResponse, proto.Clone(o.start).(*types.NodeCredentials), new(types.FetchNodeCredentialsResponse)) == nil {
						bad("node %d: the reply opens with node %d's key", nd.i, o.i)
					}
				}
				nc2, err := nc.HandleFetchNodeCredentialsResponse(ctx, ns2, inner)
				if err != nil {
					bad("node %d: the credentials in the reply are not accepted by the new key's owner: %v", nd.i, err)
					return
				}
				kid, _ := nodeenrollment.KeyIdFromPkix(nc2.CertificatePublicKeyPkix)
				ni, err := types.LoadNodeInformation(ctx, st, kid)
				if err != nil {
					bad("node %d: no record under the new key after an honored rotation: %v", nd.i, err)
					return
				}
				if got := ni.GetState().GetFields()["i"].GetNumberValue(); int(got) != nd.i || ni.GetState() == nil {
					bad("node %d: the new record carries state %v", nd.i, ni.GetState())
				}
				nd.creds, nd.store = nc2, ns2
			}
		}()
	}
	for g := 0; g < 4; g++ {
		wg.Add(1)
		r2 := mathrand.New(mathrand.NewSource(rng.Int63()))
		go func() {
			defer wg.Done()
			<-start
			for j := 0; j < 6 && len(forgeries) > 0; j++ {
				f := forgeries[r2.Intn(len(forgeries))]
				if _, err := rotation.RotateNodeCredentials(ctx, st, proto.Clone(f.req).(*types.RotateNodeCredentialsRequest)); err == nil {
					bad("a request that must be refused was honored under parallel use: %s", f.name)
				}
			}
		}()
	}
	close(start)
	wg.Wait()
}

// raceEnroll (C04, auxiliary): many goroutines enroll fresh nodes (node-led: authorize, fetch, handle the response)
// against one server storage at the same time, the way a server does from its connection goroutines. Facts that load
// cannot disturb (every node has its own key, so no two enrollments touch the same record): each enrollment completes; the
// record returned and the record stored are filed under the key ID derived - independently, crypto/hkdf - from that
// node's own certificate key and hold that key; the certificates the node ends up with are for that key and named by
// that key ID.
func raceEnroll(t *testing.T, rng *mathrand.Rand) {
	ctx := context.Background()
	st, _ := inmem.New(ctx)
	if _, err := rotation.RotateRootCertificates(ctx, st); err != nil {
		t.Fatal(err)
	}
	bad := func(format string, a ...any) {
		fmt.Printf("ENROLL-VIOLATION "+format+"\n", a...)
		t.Fail()
	}
	var wg sync.WaitGroup
	start := make(chan struct{})
	n := 8 + rng.Intn(16)
	for g := 0; g < n; g++ {
		wg.Add(1)
		g := g
		go func() {
			defer wg.Done()
			<-start
			for j := 0; j < 6; j++ {
				ns, _ := inmem.New(ctx)
				c, err := types.NewNodeCredentials(ctx, ns)
				if err != nil {
					bad("new credentials: %v", err)
					return
				}
				want := keyIDSlow(c.CertificatePublicKeyPkix)
				req, err := c.CreateFetchNodeCredentialsRequest(ctx)
				if err != nil {
					bad("fetch request: %v", err)
					return
				}
				s, _ := structpb.NewStruct(map[string]any{"g": float64(g), "j": float64(j)})
				ni, err := registration.AuthorizeNode(ctx, st, req, nodeenrollment.WithState(s))
				if err != nil {
					bad("authorizing a fresh node failed while others enrolled: %v", err)
					return
				}
				if ni.Id != want || !bytes.Equal(ni.CertificatePublicKeyPkix, c.CertificatePublicKeyPkix) {
					bad("the record returned for a node is filed under %q, its key's ID is %q", ni.Id, want)
				}
				resp, err := registration.FetchNodeCredentials(ctx, st, req)
				if err != nil {
					bad("fetch of an authorized node failed while others enrolled: %v", err)
					return
				}
				c2, err := c.HandleFetchNodeCredentialsResponse(ctx, ns, resp)
				if err != nil {
					bad("the node does not accept the server's answer: %v", err)
					return
				}
				stored, err := types.LoadNodeInformation(ctx, st, want)
				if err != nil {
					bad("no record under the node's own key ID %q after enrollment: %v", want, err)
					return
				}
				if !bytes.Equal(stored.CertificatePublicKeyPkix, c.CertificatePublicKeyPkix) || !proto.Equal(stored.State, s) {
					bad("the record under key ID %q holds another node's key or state (%v)", want, stored.State)
				}
				if len(c2.CertificateBundles) == 0 {
					bad("enrollment completed without certificates")
				}
				for _, b := range c2.CertificateBundles {
					cert, err := x509.ParseCertificate(b.CertificateDer)
					if err != nil {
						bad("unparsable certificate: %v", err)
						continue
					}
					pk, _ := x509.MarshalPKIXPublicKey(cert.PublicKey)
					if !bytes.Equal(pk, c.CertificatePublicKeyPkix) || cert.Subject.CommonName != want {
						bad("the node's certificate is named %q / holds another key; the node's key ID is %q", cert.Subject.CommonName, want)
					}
				}
			}
		}()
	}
	close(start)
	wg.Wait()
}

// raceServerCerts (C05, auxiliary): the server mints certificates for many authentication requests at once - one
// goroutine per connection - for DIFFERENT registered nodes, honest requests mixed with requests that must be refused (the
// nonce signed by another registered node's key, a client state signed by another node's key, a bit-flipped signature).
// Facts that load cannot disturb: an honest request is served, the minted leaf carries that request's nonce and the
// returned client state is that request's; a request without a valid signature by the claimed key's record is refused.
func raceServerCerts(t *testing.T, rng *mathrand.Rand) {
	ctx := context.Background()
	st, _ := inmem.New(ctx)
	if _, err := rotation.RotateRootCertificates(ctx, st); err != nil {
		t.Fatal(err)
	}
	n := 3 + rng.Intn(4)
	ids := make([]*Ident, n)
	for i := range ids {
		ids[i] = NewIdent(fmt.Sprintf("n%d", i))
		c := ids[i].Creds()
		req, err := c.CreateFetchNodeCredentialsRequest(ctx)
		if err != nil {
			t.Fatal(err)
		}
		if _, err := registration.AuthorizeNode(ctx, st, req); err != nil {
			t.Fatal(err)
		}
	}
	bad := func(format string, a ...any) {
		fmt.Printf("SERVERCERTS-VIOLATION "+format+"\n", a...)
		t.Fail()
	}
	var wg sync.WaitGroup
	start := make(chan struct{})
	g := 8 + rng.Intn(16)
	for k := 0; k < g; k++ {
		wg.Add(1)
		r2 := mathrand.New(mathrand.NewSource(rng.Int63()))
		k := k
		go func() {
			defer wg.Done()
			<-start
			for j := 0; j < 12; j++ {
				me, other := ids[r2.Intn(n)], ids[r2.Intn(n)]
				nonce := make([]byte, nodeenrollment.NonceSize)
				r2.Read(nonce)
				s, _ := structpb.NewStruct(map[string]any{"k": float64(k), "j": float64(j)})
				stateBytes, _ := proto.Marshal(s)
				req := &types.GenerateServerCertificatesRequest{CertificatePublicKeyPkix: me.Pkix, Nonce: nonce, ClientState: stateBytes}
				kind := r2.Intn(4)
				if other == me && (kind == 1 || kind == 2) {
					kind = 0
				}
				nonceKey, stateKey := me.Priv, me.Priv
				switch kind {
				case 1:
					nonceKey = other.Priv
				case 2:
					stateKey = other.Priv
				}
				req.NonceSignature = ed25519.Sign(nonceKey, nonce)
				req.ClientStateSignature = ed25519.Sign(stateKey, stateBytes)
				if kind == 3 {
					req.NonceSignature[r2.Intn(len(req.NonceSignature))] ^= 1 << uint(r2.Intn(8))
				}
				// a forged twin of an honest request - same claimed key and nonce, damaged nonce signature, a client state of the
				// forger's choosing - sent at the same moment: it must be refused however the two calls overlap
				var twin sync.WaitGroup
				if kind == 0 && r2.Intn(2) == 0 {
					fs, _ := structpb.NewStruct(map[string]any{"forged": true})
					fsb, _ := proto.Marshal(fs)
					freq := &types.GenerateServerCertificatesRequest{CertificatePublicKeyPkix: me.Pkix, Nonce: nonce, ClientState: fsb,
						NonceSignature: append([]byte(nil), req.NonceSignature...), ClientStateSignature: ed25519.Sign(other.Priv, fsb)}
					freq.NonceSignature[r2.Intn(len(freq.NonceSignature))] ^= 1 << uint(r2.Intn(8))
					twin.Add(1)
					go func() {
						defer twin.Done()
						if fresp, ferr := nodetls.GenerateServerCertificates(ctx, st, freq); ferr == nil {
							bad("a forged twin (same key and nonce as an honest request in flight, damaged signature) was served: bundles=%d state=%v", len(fresp.GetCertificateBundles()), fresp.GetClientState())
						}
					}()
				}
				resp, err := nodetls.GenerateServerCertificates(ctx, st, req)
				twin.Wait()
				if kind != 0 {
					if err == nil {
						bad("certificates minted under parallel use for a request of kind %d (1 nonce signed by another node, 2 state signed by another node, 3 damaged signature)", kind)
					}
					continue
				}
				if err != nil {
					bad("an honest request of a registered node was refused while others were served: %v", err)
					continue
				}
				if !proto.Equal(resp.ClientState, s) {
					bad("the client state returned is not the one this request carried: %v, sent %v", resp.ClientState, s)
				}
				if len(resp.CertificateBundles) == 0 {
					bad("no certificates in the answer to an honest request")
				}
				for _, b := range resp.CertificateBundles {
					c, perr := x509.ParseCertificate(b.CertificateDer)
					if perr != nil {
						bad("unparsable leaf: %v", perr)
						continue
					}
					found := false
					for _, d := range c.DNSNames {
						if d == base64.RawStdEncoding.EncodeToString(nonce) {
							found = true
						}
					}
					if !found {
						bad("the minted leaf does not carry this request's nonce")
					}
				}
			}
		}()
	}
	close(start)
	wg.Wait()
}

// raceTokens (C06, auxiliary): many activation tokens are created and used at the same time against one server storage,
// each token by its own goroutine only (concurrent use of ONE token is outside the statement). Facts that load cannot
// disturb: the first use of a live token enrolls the presenting node, whose record carries that token's state and no
// other's; the token's entry is gone afterwards and a second node presenting it is refused and gets no record.
func raceTokens(t *testing.T, rng *mathrand.Rand) {
	ctx := context.Background()
	st, _ := inmem.New(ctx)
	if _, err := rotation.RotateRootCertificates(ctx, st); err != nil {
		t.Fatal(err)
	}
	bad := func(format string, a ...any) {
		fmt.Printf("TOKEN-VIOLATION "+format+"\n", a...)
		t.Fail()
	}
	var wg sync.WaitGroup
	start := make(chan struct{})
	n := 8 + rng.Intn(16)
	for g := 0; g < n; g++ {
		wg.Add(1)
		g := g
		go func() {
			defer wg.Done()
			<-start
			for j := 0; j < 4; j++ {
				s, _ := structpb.NewStruct(map[string]any{"g": float64(g), "j": float64(j)})
				tokenId, tok, err := registration.CreateServerLedActivationToken(ctx, st, &types.ServerLedRegistrationRequest{}, nodeenrollment.WithState(s))
				if err != nil {
					bad("creating a token failed while others were created and used: %v", err)
					return
				}
				use := func() (*types.NodeCredentials, string, error) {
					ns, _ := inmem.New(ctx)
					c, err := types.NewNodeCredentials(ctx, ns, nodeenrollment.WithActivationToken(tok))
					if err != nil {
						return nil, "", err
					}
					kid := keyIDSlow(c.CertificatePublicKeyPkix)
					req, err := c.CreateFetchNodeCredentialsRequest(ctx)
					if err != nil {
						return nil, kid, err
					}
					resp, err := registration.FetchNodeCredentials(ctx, st, req)
					if err != nil {
						return nil, kid, err
					}
					c2, err := c.HandleFetchNodeCredentialsResponse(ctx, ns, resp)
					return c2, kid, err
				}
				c2, kid, err := use()
				if err != nil || c2 == nil || len(c2.CertificateBundles) == 0 {
					bad("the first use of a live token did not enroll the node: %v", err)
					return
				}
				ni, err := types.LoadNodeInformation(ctx, st, kid)
				if err != nil {
					bad("no record under the enrolled node's key ID: %v", err)
					return
				}
				if !proto.Equal(ni.State, s) {
					bad("the node enrolled with token (%d,%d) carries state %v", g, j, ni.State)
				}
				if _, err := types.LoadServerLedActivationToken(ctx, st, tokenId); err == nil {
					bad("the token's entry is still there after its use")
				}
				if c3, kid3, err := use(); err == nil && c3 != nil && len(c3.CertificateBundles) > 0 {
					bad("a used token enrolled a second node")
				} else if _, lerr := types.LoadNodeInformation(ctx, st, kid3); lerr == nil && kid3 != "" {
					bad("a second presentation of a used token left a node record")
				}
			}
		}()
	}
	close(start)
	wg.Wait()
}
