//go:build verif

package engines

import (
	"github.com/hashicorp/nodeenrollment/storage/file"
	"path/filepath"
	"os"
	"context"
	"errors"
	"fmt"
	"sort"
	"strings"
	"time"

	"github.com/anishathalye/porcupine"
	"github.com/hashicorp/nodeenrollment"
	"github.com/hashicorp/nodeenrollment/types"
	"google.golang.org/protobuf/proto"
	"google.golang.org/protobuf/types/known/timestamppb"

	"verifsim/kernel"
)

// "ab"/"xa" end in other IDs of the alphabet: an ID is a whole key, not a suffix
// "a.tmp", "a~", "a.bak" look like the scratch names an atomic-write scheme might use for "a" - they are IDs like any other
var kvIDs = []string{"a", "b", "c", "current", "next", "roots", "ab", "xa", "a.tmp", "a~", "a.bak", ".a", "k+1", "k 1", "k%2B1"} // ".a": a name some tools treat as hidden
var kvTypes = []string{"NodeCredentials", "NodeInformation", "RootCertificates", "ServerLedActivationToken"}

func kvListable(t string) bool { return t != "ServerLedActivationToken" }

// kvMsg builds a message of the type with the ID and a unique payload; kvVal reads the payload back.
func kvMsg(t, id, val string) nodeenrollment.MessageWithId {
	switch t {
	case "NodeCredentials":
		return &types.NodeCredentials{Id: id, RegistrationNonce: []byte(val), CertificateBundles: []*types.CertificateBundle{{CertificateDer: []byte(val)}}}
	case "NodeInformation":
		return &types.NodeInformation{Id: id, NodeId: val, CertificateBundles: []*types.CertificateBundle{{CertificateDer: []byte(val)}}}
	case "RootCertificates":
		return &types.RootCertificates{Id: id, WrappingKeyId: val, Current: &types.RootCertificate{Id: val}}
	case "ServerLedActivationToken":
		return &types.ServerLedActivationToken{Id: id, WrappingKeyId: val, CreationTime: timestamppb.Now()}
	}
	return nil
}

func kvEmpty(t, id string) nodeenrollment.MessageWithId {
	switch t {
	case "NodeCredentials":
		return &types.NodeCredentials{Id: id}
	case "NodeInformation":
		return &types.NodeInformation{Id: id}
	case "RootCertificates":
		return &types.RootCertificates{Id: id}
	case "ServerLedActivationToken":
		return &types.ServerLedActivationToken{Id: id}
	}
	return nil
}

// kvDirty is a destination message that already holds values (a reused message): a load must replace all of it.
func kvDirty(t, id string) nodeenrollment.MessageWithId {
	d := []byte("left-over")
	switch t {
	case "NodeCredentials":
		return &types.NodeCredentials{Id: id, RegistrationNonce: d, CertificateBundles: []*types.CertificateBundle{{CertificateDer: d}}, EncryptionPrivateKeyBytes: d}
	case "NodeInformation":
		return &types.NodeInformation{Id: id, NodeId: "left-over", CertificateBundles: []*types.CertificateBundle{{CertificateDer: d}}, RegistrationNonce: d}
	case "RootCertificates":
		return &types.RootCertificates{Id: id, WrappingKeyId: "left-over", Next: &types.RootCertificate{Id: "left-over"}}
	case "ServerLedActivationToken":
		return &types.ServerLedActivationToken{Id: id, WrappingKeyId: "left-over", CreationTimeMarshaled: d}
	}
	return nil
}

// kvExact: is the loaded message exactly what kvMsg stored for its value (nothing missing, nothing left over)?
func kvExact(t, id string, m nodeenrollment.MessageWithId) bool {
	want := kvMsg(t, id, kvVal(m))
	if tok, ok := m.(*types.ServerLedActivationToken); ok {
		tok = proto.Clone(tok).(*types.ServerLedActivationToken)
		tok.CreationTime = nil
		want.(*types.ServerLedActivationToken).CreationTime = nil
		return proto.Equal(tok, want)
	}
	return proto.Equal(m, want)
}

func kvVal(m nodeenrollment.MessageWithId) string {
	switch v := m.(type) {
	case *types.NodeCredentials:
		return string(v.RegistrationNonce)
	case *types.NodeInformation:
		return v.NodeId
	case *types.RootCertificates:
		return v.WrappingKeyId
	case *types.ServerLedActivationToken:
		return v.WrappingKeyId
	}
	return ""
}

type kvIn struct {
	Op, Type, ID, Val string
	// Cancel: the caller's context is already cancelled when the operation is made
	Cancel bool
	// Dirty: a load into a message that already holds other values
	Dirty bool
}

type kvOut struct {
	Val      string
	NotFound bool
	Err      bool
	Dup      bool
	List     string
	rawList  []string // the slice List returned (not part of the compared output)
}

func kvApply(st nodeenrollment.Storage, in kvIn) kvOut {
	var out kvOut
	contextBG := contextBG
	if in.Cancel {
		c, cancel := context.WithCancel(contextBG)
		cancel()
		contextBG = c
	}
	switch in.Op {
	case "store":
		err := st.Store(contextBG, kvMsg(in.Type, in.ID, in.Val))
		if err != nil {
			out.Err = true
			var d1 *types.DuplicateRecordError
			if errors.As(err, &d1) || errors.As(err, &types.DuplicateRecordError{}) {
				out.Dup = true
			}
		}
	case "load":
		m := kvEmpty(in.Type, in.ID)
		if in.Dirty {
			m = kvDirty(in.Type, in.ID)
		}
		err := st.Load(contextBG, m)
		switch {
		case err == nil:
			out.Val = kvVal(m)
			if !kvExact(in.Type, in.ID, m) {
				out.Val = "<not exactly the stored message: " + out.Val + ">"
			}
		case errors.Is(err, nodeenrollment.ErrNotFound):
			out.NotFound = true
		default:
			out.Err = true
		}
	case "remove":
		if err := st.Remove(contextBG, kvMsg(in.Type, in.ID, "")); err != nil {
			out.Err = true
		}
	case "list":
		ids, err := st.List(contextBG, kvMsg(in.Type, "", ""))
		if err != nil {
			out.Err = true
		} else {
			out.rawList = ids // what the back end handed out: it belongs to the caller from now on
			ids = append([]string(nil), ids...)
			sort.Strings(ids)
			out.List = strings.Join(ids, ",")
		}
	}
	return out
}

// kvModel is the sequential reference: a typed map. state is encoded as a sorted "type/id=val;" string.
type kvState map[string]string

func (s kvState) enc() string {
	ks := make([]string, 0, len(s))
	for k := range s {
		ks = append(ks, k)
	}
	sort.Strings(ks)
	var b strings.Builder
	for _, k := range ks {
		b.WriteString(k + "=" + s[k] + ";")
	}
	return b.String()
}

// kvShort renders the model state with long values abbreviated (for messages only).
func kvShort(s kvState) string {
	t := kvState{}
	for k, v := range s {
		if len(v) > 24 {
			v = fmt.Sprintf("%s...(%d bytes)", v[:12], len(v))
		}
		t[k] = v
	}
	return t.enc()
}

func kvDec(e string) kvState {
	s := kvState{}
	for _, kv := range strings.Split(e, ";") {
		if i := strings.Index(kv, "="); i > 0 {
			s[kv[:i]] = kv[i+1:]
		}
	}
	return s
}

// kvStep: is out a legal result of in on state, and what is the next state? storeOnce selects the test back end's extra rule.
func kvStep(s kvState, in kvIn, out kvOut, storeOnce bool) (bool, kvState) {
	key := in.Type + "/" + in.ID
	if in.Cancel && out.Err && !out.Dup && !out.NotFound {
		// an operation made with a cancelled context may be refused - but an operation that reports failure has no effect;
		// if the back end ignores the context instead, the ordinary rules below apply
		return true, s
	}
	switch in.Op {
	case "store":
		if storeOnce && in.Type == "NodeInformation" {
			if _, ok := s[key]; ok {
				return out.Err && out.Dup, s
			}
		}
		if out.Err {
			return false, s
		}
		n := kvState{}
		for k, v := range s {
			n[k] = v
		}
		n[key] = in.Val
		return true, n
	case "load":
		v, ok := s[key]
		if !ok {
			return out.NotFound && !out.Err, s
		}
		return !out.NotFound && !out.Err && out.Val == v, s
	case "remove":
		if _, ok := s[key]; !ok {
			// the statement is silent about removing an absent entry (the back ends differ): nil or error, state unchanged
			return true, s
		}
		if out.Err {
			return false, s
		}
		n := kvState{}
		for k, v := range s {
			if k != key {
				n[k] = v
			}
		}
		return true, n
	case "list":
		if !kvListable(in.Type) {
			return out.Err, s
		}
		var ids []string
		for k := range s {
			if strings.HasPrefix(k, in.Type+"/") {
				ids = append(ids, strings.TrimPrefix(k, in.Type+"/"))
			}
		}
		sort.Strings(ids)
		return !out.Err && out.List == strings.Join(ids, ","), s
	}
	return false, s
}

// kvRelocateBehindSymlink picks one record file of the file back end, moves it to a side directory and puts a symbolic
// link with the old name in its place. Returns "type-dir/id" of the record moved, "" if there is none.
func kvRelocateBehindSymlink(r *kernel.Run, st nodeenrollment.Storage, tp *kernel.Tape) string {
	fs, ok := st.(*file.Storage)
	if !ok {
		return ""
	}
	base := fs.BaseDir()
	var files []string
	filepath.WalkDir(base, func(p string, d os.DirEntry, err error) error {
		if err == nil && d.Type().IsRegular() && !strings.Contains(p, "/.moved/") {
			files = append(files, p)
		}
		return nil
	})
	if len(files) == 0 {
		return ""
	}
	sort.Strings(files)
	f := files[tp.Draw(len(files))]
	side := filepath.Join(filepath.Dir(base), filepath.Base(base)+".moved")
	if err := os.MkdirAll(side, 0o700); err != nil {
		r.HarnessErr("mkdir: %v", err)
	}
	r.OnEnd(func() { os.RemoveAll(side) })
	dst := filepath.Join(side, fmt.Sprintf("%d-%s", r.NextID(), filepath.Base(f)))
	if err := os.Rename(f, dst); err != nil {
		r.HarnessErr("rename: %v", err)
	}
	if err := os.Symlink(dst, f); err != nil {
		r.HarnessErr("symlink: %v", err)
	}
	rel, _ := filepath.Rel(base, f)
	return rel
}

type unknownMsg struct{ *timestamppb.Timestamp }

func (unknownMsg) GetId() string { return "a" }

// C19: storage back ends behave as a typed key-value map.
func propC19(r *kernel.Run) {
	tp := r.Tape
	concurrent := tp.Draw(3) == 0
	backend := backends[tp.Draw(3)]
	if concurrent {
		backend = Pick2(tp, "inmem", "storeonce", "inmem")
	}
	st := newBackend(r, backend, "kv")
	storeOnce := backend == "storeonce"
	uniq := 0
	ids := kvIDs
	if backend != "file" {
		// for the in-memory back ends an ID is an opaque key: IDs that merely look like paths must stay apart
		// (not used on the file back end, where an ID is a file name)
		ids = append(append([]string{}, kvIDs...), "a/", "./a", "a/../b", "..", "a//b", "b/.")
	}
	draw := func() kvIn {
		in := kvIn{Type: kvTypes[tp.Draw(4)], ID: ids[tp.Draw(len(ids))]}
		switch k := tp.Draw(10); {
		case k < 4:
			in.Op = "store"
			uniq++
			in.Val = fmt.Sprintf("v%d", uniq) + strings.Repeat("x", tp.Draw(4)*tp.Draw(40)) // lengths differ so that an overwrite can shrink a record
			if tp.Draw(40) == 0 {
				// a large record (application state can be any size): tens to hundreds of KiB, around powers of two too
				in.Val = fmt.Sprintf("v%d", uniq) + strings.Repeat("y", []int{4090, 32760, 65530, 65540, 131080, 300000}[tp.Draw(6)]+tp.Draw(16))
			}
		case k < 7:
			in.Op = "load"
		case k < 9:
			in.Op = "remove"
		default:
			in.Op = "list"
			in.ID = ""
		}
		if tp.Draw(10) == 0 {
			in.Cancel = true
		}
		if in.Op == "load" && tp.Draw(2) == 0 {
			in.Dirty = true
		}
		if in.Op == "load" && backend == "file" && tp.Draw(8) == 0 {
			// IDs that were never stored and are not plain file names (only LOADED on the file back end, never stored or
			// removed there): nothing is found under them, whatever the directory tree looks like
			in.ID = Pick2(tp, ".", "..", "x/../a", "x/../ab", "./a", "a/", "../a", "a/.")
		}
		return in
	}
	r.Count("cfg.backend."+backend, 1)
	if !concurrent && tp.Draw(40) == 0 {
		// a large population of one type (hundreds of records, past any directory-read or listing batch size), then random
		// loads, a complete list, removals and loads again
		r.Count("cfg.mode.bulk", 1)
		t := kvTypes[tp.Draw(4)]
		n := []int{255, 256, 257, 300, 513, 1025}[tp.Draw(6)] + tp.Draw(3)
		model := kvState{}
		bulkID := func(i int) string { return fmt.Sprintf("n%04d", i) }
		check := func(in kvIn) {
			out := kvApply(st, in)
			ok, next := kvStep(model, in, out, storeOnce)
			r.Count("ops."+in.Op, 1)
			if !ok {
				r.Violate("map-model", "differs-from-map-model/"+backend+"/"+in.Op+kvWhy(model, in, out)+"/large-population", "%s back end holding %d %s records: %s %s returned {Val:%s NotFound:%v Err:%v List:%s...}", backend, len(model), t, in.Op, in.ID, truncate(out.Val, 40), out.NotFound, out.Err, truncate(out.List, 80))
			}
			model = next
		}
		for i := 0; i < n; i++ {
			check(kvIn{Op: "store", Type: t, ID: bulkID(i), Val: fmt.Sprintf("v%d", i)})
			if i%97 == 0 && backend == "file" && tp.Draw(2) == 0 {
				st = reopenBackend(r, st)
			}
		}
		for j := 0; j < 40; j++ {
			check(kvIn{Op: "load", Type: t, ID: bulkID(tp.Draw(n + 5))})
		}
		check(kvIn{Op: "list", Type: t})
		for j := 0; j < 20; j++ {
			check(kvIn{Op: "remove", Type: t, ID: bulkID(tp.Draw(n))})
		}
		for j := 0; j < 40; j++ {
			check(kvIn{Op: "load", Type: t, ID: bulkID(tp.Draw(n))})
		}
		check(kvIn{Op: "list", Type: t})
		r.Count("cases", 1)
		r.FP("bulk", backend, t, n)
		return
	}
	if !concurrent {
		r.Count("cfg.mode.sequential", 1)
		model := kvState{}
		n := tp.Range(5, r.Deep(60, 200))
		var hist []string
		var heldList []string
		heldWant := ""
		for i := 0; i < n; i++ {
			if tp.Draw(25) == 0 {
				// nil and unknown message types are refused by every method
				var nilMsg *types.NodeInformation
				bad := []nodeenrollment.MessageWithId{nil, nilMsg, unknownMsg{timestamppb.Now()}}[tp.Draw(3)]
				var errs [4]error
				kernel.Guard(func() { errs[0] = st.Store(contextBG, bad) })
				kernel.Guard(func() { errs[1] = st.Load(contextBG, bad) })
				kernel.Guard(func() { errs[2] = st.Remove(contextBG, bad) })
				kernel.Guard(func() {
					var pm proto.Message
					if bad != nil {
						pm = bad
					}
					if _, isUnknown := bad.(unknownMsg); isUnknown || bad == nil {
						_, errs[3] = st.List(contextBG, pm)
					} else {
						errs[3] = errors.New("typed nil is a legal type selector for List")
					}
				})
				for j, e := range errs {
					if e == nil {
						r.Violate("refuse-invalid", "invalid-message-accepted/"+[...]string{"store", "load", "remove", "list"}[j], "%s accepted a %T message on %s", [...]string{"Store", "Load", "Remove", "List"}[j], bad, backend)
					}
				}
				r.Count("ops.invalid_message", 1)
				continue
			}
			if backend == "file" && tp.Draw(12) == 0 {
				// the process restarts: a new Storage value over the same directory; the map model is untouched
				st = reopenBackend(r, st)
				hist = append(hist, "restart (directory re-opened)")
				continue
			}
			if backend == "file" && tp.Draw(15) == 0 {
				// the operator moves a record to another volume and leaves a symbolic link in its place (secret mounts and
				// config management do the same): the record is where it was as far as the key-value map is concerned
				if moved := kvRelocateBehindSymlink(r, st, tp); moved != "" {
					hist = append(hist, "record "+moved+" moved behind a symbolic link")
					r.Count("fault.record_moved_behind_symlink", 1)
				}
				continue
			}
			in := draw()
			out := kvApply(st, in)
			if heldList != nil {
				// a listing obtained earlier is the caller's: later operations (other listings included) must not change it
				cp := append([]string(nil), heldList...)
				sort.Strings(cp)
				if strings.Join(cp, ",") != heldWant {
					r.Violate("map-model", "differs-from-map-model/"+backend+"/list/earlier-result-changed", "%s back end: a List result obtained earlier (%q) reads %q after a later %s", backend, truncate(heldWant, 80), truncate(strings.Join(cp, ","), 80), in.Op)
				}
			}
			if in.Op == "list" && !out.Err && len(out.rawList) > 0 {
				heldList, heldWant = out.rawList, out.List
			}
			out.rawList = nil
			ok, next := kvStep(model, in, out, storeOnce)
			r.Count("ops."+in.Op, 1)
			if in.Cancel {
				r.Count("fault.cancelled_context", 1)
				if out.Err {
					r.Count("probe.cancelled_operation_refused", 1)
				}
			}
			hist = append(hist, truncate(fmt.Sprintf("%s%s %s/%s %s", in.Op, map[bool]string{true: "(cancelled ctx)"}[in.Cancel], in.Type, in.ID, truncate(in.Val, 24)), 90)+fmt.Sprintf(" -> {Val:%s NotFound:%v Err:%v Dup:%v List:%s}", truncate(out.Val, 24), out.NotFound, out.Err, out.Dup, out.List))
			if !ok {
				tail := hist
				if len(tail) > 8 {
					tail = tail[len(tail)-8:]
				}
				r.Violate("map-model", "differs-from-map-model/"+backend+"/"+in.Op+kvWhy(model, in, out), "%s back end: %s %s/%s returned {Val:%s NotFound:%v Err:%v Dup:%v List:%s}, map model state %q; last ops %v", backend, in.Op, in.Type, in.ID, truncate(out.Val, 60), out.NotFound, out.Err, out.Dup, out.List, truncate(kvShort(model), 400), tail)
			}
			model = next
			r.StateFP(backend, model.enc())
		}
		r.Count("cases", 1)
		r.FP(backend, len(hist), model.enc())
		if r.Index%300 == 0 {
			if len(hist) > 10 {
				hist = hist[:10]
			}
			r.SetSample(map[string]any{"mode": "sequential", "backend": backend, "history": hist})
		}
		return
	}
	// concurrent clients, one operation per scheduling step; history checked for linearizability against the map model
	r.Count("cfg.mode.concurrent", 1)
	r.Sched.Managed()
	nclients := tp.Range(2, r.Deep(4, 5))
	perClient := tp.Range(3, 10)
	plans := make([][]kvIn, nclients)
	for c := range plans {
		for i := 0; i < perClient; i++ {
			in := draw()
			// a small key space makes operations collide
			in.ID = ids[tp.Draw(2)]
			if tp.Draw(6) == 0 {
				in.ID = ids[tp.Draw(len(ids))]
			}
			if in.Op == "list" {
				in.ID = ""
			}
			in.Type = kvTypes[tp.Draw(2)]
			plans[c] = append(plans[c], in)
		}
	}
	var ops []porcupine.Operation
	var seq int64
	for c := range plans {
		c := c
		r.Sched.Go(fmt.Sprintf("client%d", c), "kv-client", func() {
			for _, in := range plans[c] {
				seq++
				call := seq
				r.Sched.Park("kv."+in.Op, nil, nil) // the operation is invoked here and takes effect at some point before it returns
				out := kvApply(st, in)
				seq++
				ops = append(ops, porcupine.Operation{ClientId: c, Input: in, Call: call, Output: out, Return: seq})
			}
		})
	}
	r.Sched.RunToQuiescence(10000)
	if r.Sched.Live() != 0 {
		r.HarnessErr("kv clients did not finish: %v", r.Sched.ParkedAt())
	}
	model := porcupine.Model{
		Init: func() interface{} { return "" },
		Step: func(state, input, output interface{}) (bool, interface{}) {
			ok, next := kvStep(kvDec(state.(string)), input.(kvIn), output.(kvOut), storeOnce)
			return ok, next.enc()
		},
		Equal: func(a, b interface{}) bool { return a.(string) == b.(string) },
	}
	res := porcupine.CheckOperationsTimeout(model, ops, 30*time.Second)
	r.Count("ops.concurrent_operations", int64(len(ops)))
	r.Count("cases", 1)
	switch res {
	case porcupine.Ok:
		r.Count("oracle.porcupine_ok", 1)
	case porcupine.Unknown:
		r.Count("oracle.porcupine_unknown_inconclusive", 1)
	case porcupine.Illegal:
		var h []string
		for _, o := range ops {
			h = append(h, fmt.Sprintf("c%d [%d,%d] %+v -> %+v", o.ClientId, o.Call, o.Return, o.Input, o.Output))
		}
		r.Violate("linearizable", "not-linearizable/"+backend, "history of %d operations on %s is not linearizable with respect to the typed map model: %v", len(ops), backend, h)
	}
	r.FP("concurrent", backend, nclients, perClient, r.Sched.Hash())
	if r.Index%300 == 1 {
		r.SetSample(map[string]any{"mode": "concurrent", "backend": backend, "clients": nclients, "operations": len(ops)})
	}
}

func kvWhy(model kvState, in kvIn, out kvOut) string {
	switch {
	case in.Op == "load" && out.Err:
		return "/generic-error-instead-of-not-found"
	case in.Op == "load" && !out.NotFound:
		return "/wrong-value"
	case in.Op == "load":
		return "/lost-value"
	case in.Op == "store" && out.Dup:
		return "/unexpected-duplicate-error"
	case in.Op == "store":
		return "/store-result"
	}
	return ""
}

func init() {
	register(&Prop{ID: "C19", Engine: propC19})
}
