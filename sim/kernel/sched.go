package kernel

import (
	"fmt"
	"hash/fnv"
	"runtime"
	"sort"
	"strconv"
	"sync"
	"testing/synctest"
)

// Parked is a goroutine waiting at a seam for the scheduler's permission.
type Parked struct {
	Name    string
	Point   string
	Obj     any
	Enabled func() bool // nil = always enabled
	ch      chan struct{}
}

// Sched releases exactly one parked goroutine per step; which one is a tape
// choice. It never inspects wall-clock time and never lets two managed
// goroutines run at once (seams are only enabled when they will not block).
type Sched struct {
	r        *Run
	mu       sync.Mutex
	arrivals []*Parked
	names    map[uint64]string
	roles    map[string]string
	libN     int
	parked   map[string]*Parked
	killed   bool
	driver   uint64
	Steps    int
	hash     uint64
	live     map[string]bool // actors started through Go and not finished
	// OnArrive is called (deterministic order) for every newly parked goroutine.
	OnArrive func(p *Parked)
	// OnRelease is called when a goroutine is released.
	OnRelease func(p *Parked)
	// Filter can veto enabled-ness using engine models (lock model for mux).
	Filter func(p *Parked) bool
	// Prio, if set, biases choice (PCT-like): lower value = preferred. Drawn per run by engines.
	Prio map[string]int
	Free bool // when true Park is a no-op (sequential engines)
	// Frozen: pick the first enabled actor without consulting the tape and without touching the schedule hash.
	// Used for phases whose internal order depends on a runtime choice the library makes itself (sync.Map.Range)
	// but whose outcome does not.
	Frozen      bool
	FrozenSteps int
}

func newSched(r *Run) *Sched {
	return &Sched{r: r, names: map[uint64]string{}, roles: map[string]string{}, parked: map[string]*Parked{}, live: map[string]bool{}, driver: goid(), Free: true}
}

func goid() uint64 {
	var buf [64]byte
	n := runtime.Stack(buf[:], false)
	// "goroutine 123 ["
	s := buf[10:n]
	i := 0
	for i < len(s) && s[i] >= '0' && s[i] <= '9' {
		i++
	}
	id, _ := strconv.ParseUint(string(s[:i]), 10, 64)
	return id
}

// Managed switches the scheduler on: seams park from now on.
func (s *Sched) Managed() { s.Free = false }

// Go starts a managed actor goroutine. It parks at "start" before running f.
func (s *Sched) Go(name, role string, f func()) {
	s.mu.Lock()
	s.live[name] = true
	s.roles[name] = role
	s.mu.Unlock()
	go func() {
		id := goid()
		s.mu.Lock()
		s.names[id] = name
		s.mu.Unlock()
		defer func() {
			s.mu.Lock()
			delete(s.live, name)
			delete(s.names, id)
			s.mu.Unlock()
		}()
		s.Park("start", nil, nil)
		f()
	}()
}

// Live reports how many actors started with Go have not finished.
func (s *Sched) Live() int {
	s.mu.Lock()
	defer s.mu.Unlock()
	return len(s.live)
}

func (s *Sched) IsLive(name string) bool {
	s.mu.Lock()
	defer s.mu.Unlock()
	return s.live[name]
}

// Name returns the actor name of the calling goroutine ("" for the driver).
func (s *Sched) Name() string {
	id := goid()
	if id == s.driver {
		return ""
	}
	s.mu.Lock()
	defer s.mu.Unlock()
	return s.names[id]
}

// Park blocks the calling goroutine at a seam until released. The driver
// goroutine and free-running mode never park.
func (s *Sched) Park(point string, obj any, enabled func() bool) {
	if s == nil || s.Free {
		return
	}
	id := goid()
	if id == s.driver {
		return
	}
	s.mu.Lock()
	if s.killed {
		s.mu.Unlock()
		return
	}
	name, ok := s.names[id]
	if !ok {
		name = fmt.Sprintf("lib%d", s.libN)
		s.libN++
		s.names[id] = name
		s.roles[name] = "lib"
	}
	p := &Parked{Name: name, Point: point, Obj: obj, Enabled: enabled, ch: make(chan struct{})}
	s.arrivals = append(s.arrivals, p)
	s.mu.Unlock()
	<-p.ch
}

func (s *Sched) absorb() {
	s.mu.Lock()
	arr := s.arrivals
	s.arrivals = nil
	s.mu.Unlock()
	sort.Slice(arr, func(i, j int) bool { return arr[i].Name < arr[j].Name })
	for _, p := range arr {
		if old := s.parked[p.Name]; old != nil {
			s.r.HarnessErr("goroutine %s parked twice (%s, %s)", p.Name, old.Point, p.Point)
		}
		s.parked[p.Name] = p
		if s.OnArrive != nil {
			s.OnArrive(p)
		}
	}
}

// ParkedAt lists "name@point" of everything parked (sorted), for diagnostics and oracles.
func (s *Sched) ParkedAt() []string {
	var out []string
	for _, n := range SortedKeys(s.parked) {
		out = append(out, n+"@"+s.parked[n].Point)
	}
	return out
}

// Settle waits until every goroutine in the bubble is parked, durably blocked or done, then absorbs arrivals.
func (s *Sched) Settle() {
	synctest.Wait()
	s.absorb()
}

func (s *Sched) enabledList() []string {
	var en []string
	for _, n := range SortedKeys(s.parked) {
		p := s.parked[n]
		if p.Enabled != nil && !p.Enabled() {
			continue
		}
		if s.Filter != nil && !s.Filter(p) {
			continue
		}
		en = append(en, n)
	}
	return en
}

// Step releases one enabled goroutine chosen by the tape. false = nothing enabled.
func (s *Sched) Step() bool {
	s.Settle()
	en := s.enabledList()
	if len(en) == 0 {
		return false
	}
	var pick string
	if s.Frozen {
		pick = en[0]
		p := s.parked[pick]
		delete(s.parked, pick)
		s.FrozenSteps++
		s.r.Tracef("frozen step %d: release %s@%s (enabled %v)", s.FrozenSteps, pick, p.Point, en)
		if s.OnRelease != nil {
			s.OnRelease(p)
		}
		close(p.ch)
		return true
	}
	if s.Prio != nil && len(en) > 1 && s.r.Tape.Draw(4) != 0 {
		// priority mode (3 of 4 steps): run the highest-priority enabled actor
		best := en[0]
		for _, n := range en[1:] {
			if s.prioOf(n) < s.prioOf(best) {
				best = n
			}
		}
		pick = best
	} else {
		pick = en[s.r.Tape.Draw(len(en))]
	}
	p := s.parked[pick]
	delete(s.parked, pick)
	s.Steps++
	h := fnv.New64a()
	fmt.Fprintf(h, "%x|%s|%s", s.hash, s.roleOf(pick), p.Point)
	s.hash = h.Sum64()
	s.r.Tracef("step %d: release %s@%s (enabled %d)", s.Steps, pick, p.Point, len(en))
	if s.OnRelease != nil {
		s.OnRelease(p)
	}
	close(p.ch)
	return true
}

// Hash is the hash of the decision sequence so far projected on (role, seam).
func (s *Sched) Hash() uint64 { return s.hash }

func (s *Sched) prioOf(n string) int {
	if v, ok := s.Prio[n]; ok {
		return v
	}
	return 1 << 20
}

func (s *Sched) roleOf(n string) string {
	s.mu.Lock()
	defer s.mu.Unlock()
	if r, ok := s.roles[n]; ok {
		return r
	}
	return n
}

// RunToQuiescence steps until nothing is enabled or maxSteps is hit. Returns the number of steps taken.
func (s *Sched) RunToQuiescence(maxSteps int) int {
	n := 0
	for n < maxSteps && s.Step() {
		n++
	}
	if n >= maxSteps {
		s.r.HarnessErr("step budget %d exhausted; parked=%v", maxSteps, s.ParkedAt())
	}
	s.Settle()
	return n
}

// Drain is the teardown: in frozen mode it keeps releasing enabled goroutines until nothing is enabled, then marks the
// scheduler killed. Goroutines that are still parked (never enabled) stay parked.
func (s *Sched) Drain() {
	if s.Free {
		s.mu.Lock()
		s.killed = true
		s.mu.Unlock()
		return
	}
	s.Frozen = true
	for i := 0; i < 100000; i++ {
		if !s.Step() {
			break
		}
	}
	synctest.Wait()
	s.mu.Lock()
	s.killed = true
	s.mu.Unlock()
}

// Shutdown releases everything parked and makes all future Park calls no-ops.
func (s *Sched) Shutdown() {
	s.mu.Lock()
	s.killed = true
	s.mu.Unlock()
	for i := 0; i < 1000; i++ {
		s.mu.Lock()
		arr := s.arrivals
		s.arrivals = nil
		s.mu.Unlock()
		for _, p := range arr {
			close(p.ch)
		}
		for n, p := range s.parked {
			close(p.ch)
			delete(s.parked, n)
		}
		synctest.Wait()
		s.mu.Lock()
		more := len(s.arrivals) > 0
		s.mu.Unlock()
		if !more && len(s.parked) == 0 {
			return
		}
	}
}

// Killed tells seams to fail fast during teardown.
func (s *Sched) Killed() bool {
	s.mu.Lock()
	defer s.mu.Unlock()
	return s.killed
}
