package kernel

import (
	"fmt"
	"hash/fnv"
	mathrand "math/rand"
	"os"
	"runtime/debug"
	"sort"
	"strings"
	"testing"
	"testing/cryptotest"
	"testing/synctest"
	"time"
)

// Violation is one oracle failure.
type Violation struct {
	Oracle    string `json:"oracle"`
	Signature string `json:"signature"`
	Detail    string `json:"detail"`
}

// Result is what one run leaves behind (copied out of the bubble before teardown).
type Result struct {
	Prop       string           `json:"property"`
	Seed       uint64           `json:"seed"`
	Index      int              `json:"index"`
	Tape       []uint32         `json:"tape"`
	Scale      int              `json:"scale,omitempty"`
	Violation  *Violation       `json:"violation,omitempty"`
	Known      map[string]int64 `json:"known,omitempty"`
	Harness    string           `json:"harness_error,omitempty"`
	Stats      map[string]int64 `json:"-"`
	Trace      []string         `json:"trace,omitempty"`
	FPs        []uint64         `json:"-"`
	SchedHash  uint64           `json:"-"`
	StateFPs   []uint64         `json:"-"`
	SimSec     float64          `json:"-"`
	Steps      int64            `json:"-"`
	Sample     any              `json:"-"`
	Discarded  bool             `json:"-"`
	TeardownEr string           `json:"-"`
}

// Run is the per-run context handed to an engine; everything in it lives
// inside the synctest bubble.
type Run struct {
	T       *testing.T
	Prop    string
	Seed    uint64
	Index   int
	Tape    *Tape
	Sched   *Sched
	// Scale widens the bounds engines draw from (1 = quick tier, 2 = thorough tier); part of a run's identity, recorded
	// in replay files
	Scale   int
	Known   map[string]bool // open known-finding signatures for this property
	Start   time.Time
	res     *Result
	trace   []string
	noTr    bool
	closers []func()
	enders  []func()
	seq     int
}

// NextID returns a per-run unique small integer.
func (r *Run) NextID() int { r.seq++; return r.seq }

type abortRun struct{}

// Engine is one property's simulated workload + oracles.
type Engine func(r *Run)

var liveTrace = os.Getenv("VERIF_LIVE_TRACE") != ""

func (r *Run) Tracef(format string, a ...any) {
	if liveTrace {
		fmt.Fprintf(os.Stderr, "TRACE "+format+"\n", a...)
	}
	if r.noTr {
		return
	}
	if len(r.trace) < 4000 {
		r.trace = append(r.trace, fmt.Sprintf(format, a...))
	}
}

func (r *Run) Count(key string, n int64) { r.res.Stats[key] += n }

// FP records a distinct-nontrivial fingerprint for this run.
func (r *Run) FP(parts ...any) {
	h := fnv.New64a()
	fmt.Fprint(h, parts...)
	r.res.FPs = append(r.res.FPs, h.Sum64())
}

// StateFP records an abstract-state fingerprint.
func (r *Run) StateFP(parts ...any) {
	h := fnv.New64a()
	fmt.Fprint(h, parts...)
	r.res.StateFPs = append(r.res.StateFPs, h.Sum64())
}

func (r *Run) SetSample(s any) { r.res.Sample = s }
func (r *Run) Discard()        { r.res.Discarded = true }

// Violate reports an oracle failure. Known open findings are counted and the
// run continues; anything else aborts the run with the violation recorded.
func (r *Run) Violate(oracle, signature, format string, a ...any) {
	sig := r.Prop + "/" + signature
	if r.Known[sig] {
		if r.res.Known == nil {
			r.res.Known = map[string]int64{}
		}
		r.res.Known[sig]++
		return
	}
	if r.res.Violation == nil {
		r.res.Violation = &Violation{Oracle: oracle, Signature: sig, Detail: fmt.Sprintf(format, a...)}
		r.Tracef("VIOLATION %s: %s", sig, r.res.Violation.Detail)
	}
	panic(abortRun{})
}

// IsKnown tells whether a signature is an open known finding (so an engine can
// skip follow-up checks that would only repeat it).
func (r *Run) IsKnown(signature string) bool { return r.Known[r.Prop+"/"+signature] }

// HarnessErr reports a problem of the machinery itself (never a VIOLATION).
func (r *Run) HarnessErr(format string, a ...any) {
	if r.res.Harness == "" {
		r.res.Harness = fmt.Sprintf(format, a...)
	}
	panic(abortRun{})
}

// Guard runs f and converts a panic inside it into (panicked, message, short stack signature).
func Guard(f func()) (panicked bool, msg string, where string) {
	defer func() {
		if p := recover(); p != nil {
			if _, ok := p.(abortRun); ok {
				panic(p)
			}
			panicked = true
			msg = fmt.Sprint(p)
			where = panicSite(string(debug.Stack()))
		}
	}()
	f()
	return
}

// firstFrameIsLibrary: is the frame that raised the panic (first frame after the runtime's panic frames) library or
// dependency code rather than harness code?
func firstFrameIsLibrary(stack string) bool {
	lines := strings.Split(stack, "\n")
	seenPanic := false
	for _, l := range lines {
		t := strings.TrimSpace(l)
		if strings.HasPrefix(t, "panic(") {
			seenPanic = true
			continue
		}
		if !seenPanic || strings.HasPrefix(t, "/") || strings.HasPrefix(t, "runtime.") || t == "" {
			continue
		}
		if strings.HasPrefix(t, "verifsim/") {
			return false
		}
		return strings.Contains(t, "hashicorp/") || strings.Contains(t, "google.golang.org/protobuf")
	}
	return false
}

// panicSite extracts the first library frame of a stack for signatures.
func panicSite(stack string) string {
	lines := strings.Split(stack, "\n")
	seenPanic := false
	for _, l := range lines {
		l = strings.TrimSpace(l)
		if strings.HasPrefix(l, "panic(") {
			seenPanic = true
			continue
		}
		if !seenPanic {
			continue
		}
		if (strings.Contains(l, "nodeenrollment") || strings.Contains(l, "go-kms-wrapping")) && !strings.HasPrefix(l, "/") && strings.HasSuffix(l, ")") {
			if i := strings.LastIndex(l, "("); i > 0 {
				f := l[:i]
				if j := strings.LastIndex(f, "/"); j >= 0 {
					f = f[j+1:]
				}
				return f
			}
		}
	}
	return "unknown"
}

// OnClose registers a teardown action run (inside the bubble) after results were copied out and before the scheduler drains.
func (r *Run) OnClose(f func()) { r.closers = append(r.closers, f) }

// OnEnd registers an action run after the scheduler has drained (e.g. unsetting global hook variables).
func (r *Run) OnEnd(f func()) { r.enders = append(r.enders, f) }

// Sleep advances the fake clock (driver goroutine only).
func (r *Run) Sleep(d time.Duration) {
	if d <= 0 {
		return
	}
	// the bubble clock starts in 2000 and time.Time/nanotime overflow in 2262: keep every run well inside
	if time.Since(r.Start)+d > Horizon || time.Since(r.Start)+d < 0 {
		r.res.Discarded = true
		r.res.Stats["probe.run_ended_at_time_horizon"]++
		panic(abortRun{})
	}
	time.Sleep(d)
}

// Horizon is the maximum simulated time one run may cover.
const Horizon = 220 * 365 * 24 * time.Hour

// Exec runs one engine run in a fresh bubble. tape==nil means record from seed.
// Spec identifies one run.
type Spec struct {
	Prop  string
	Seed  uint64
	Index int
	Tape  []uint32 // nil = record from Seed
	Known map[string]bool
	Trace bool
	Scale int // 0/1 = quick bounds, 2 = thorough bounds
}

func Exec(t *testing.T, sp Spec, engine Engine) *Result {
	prop, seed, rec, known, withTrace := sp.Prop, sp.Seed, sp.Tape, sp.Known, sp.Trace
	scale := sp.Scale
	if scale < 1 {
		scale = 1
	}
	res := &Result{Prop: prop, Seed: seed, Index: sp.Index, Stats: map[string]int64{}}
	if scale > 1 {
		res.Scale = scale
	}
	var tape *Tape
	if rec != nil {
		tape = ReplayTape(rec)
	} else {
		tape = NewTape(seed)
	}
	func() {
		defer func() {
			if p := recover(); p != nil {
				res.TeardownEr = fmt.Sprint(p)
			}
		}()
		cryptotest.SetGlobalRandom(t, seed)
		mathrand.Seed(int64(seed))
		// the host's time zone is part of the environment: each run gets one derived from its seed (process-global, runs
		// are sequential), so that code which confuses local calendar fields with UTC does not hide behind a UTC container
		oldLocal := time.Local
		zones := []int{0, 0, -11 * 3600, -8 * 3600, -5 * 3600, 3600, 5*3600 + 1800, 9 * 3600, 13 * 3600, 14 * 3600}
		off := zones[int(seed%uint64(len(zones)))]
		time.Local = time.FixedZone(fmt.Sprintf("sim%+d", off/60), off)
		defer func() { time.Local = oldLocal }()
		synctest.Test(t, func(t *testing.T) {
			r := &Run{T: t, Prop: prop, Seed: seed, Index: sp.Index, Tape: tape, Known: known, Start: time.Now(), res: res, noTr: !withTrace, Scale: scale}
			r.Sched = newSched(r)
			func() {
				defer func() {
					if p := recover(); p != nil {
						if _, ok := p.(abortRun); ok {
							return
						}
						if res.Harness == "" && res.Violation == nil {
							stack := string(debug.Stack())
							if site := panicSite(stack); site != "unknown" && firstFrameIsLibrary(stack) {
								// the library itself panicked in a call the engine made with well-formed arguments (on the
								// unchanged tree this never happens): a violation of whatever the call was meant to deliver
								sig := prop + "/library-panic/" + site
								if known[sig] {
									return
								}
								res.Violation = &Violation{Oracle: "no-panic", Signature: sig, Detail: fmt.Sprintf("library code panicked: %v (in %s)", p, site)}
								return
							}
							res.Harness = fmt.Sprintf("panic in engine: %v\n%s", p, stack)
						}
					}
				}()
				engine(r)
			}()
			// copy results out before any teardown
			res.Tape = append([]uint32(nil), tape.Out...)
			res.Trace = r.trace
			res.SimSec = time.Since(r.Start).Seconds()
			res.Steps = int64(r.Sched.Steps)
			res.SchedHash = r.Sched.hash
			// teardown: close what the engine registered, let everything that can finish do so under the (frozen)
			// scheduler, and leave goroutines that can never be enabled parked (releasing them could block the bubble on a
			// mutex held by a stranded goroutine; the end-of-bubble panic for leaked goroutines is recovered by Exec)
			for i := len(r.closers) - 1; i >= 0; i-- {
				func() {
					defer func() { recover() }()
					r.closers[i]()
				}()
			}
			func() {
				defer func() { recover() }()
				r.Sched.Drain()
			}()
			for i := len(r.enders) - 1; i >= 0; i-- {
				func() {
					defer func() { recover() }()
					r.enders[i]()
				}()
			}
		})
	}()
	return res
}

// SortedKeys is a small helper for deterministic map iteration.
func SortedKeys[V any](m map[string]V) []string {
	ks := make([]string, 0, len(m))
	for k := range m {
		ks = append(ks, k)
	}
	sort.Strings(ks)
	return ks
}

// Deep returns quick on the quick tier and thorough on the thorough tier: the upper bound of a range an engine draws from.
func (r *Run) Deep(quick, thorough int) int {
	if r.Scale > 1 {
		return thorough
	}
	return quick
}
