package kernel

import (
	"testing"
	"time"
)

// Shrink minimises a failing tape while the same violation signature persists
// (internal shrinking: operations, faults and schedule all come from the tape,
// so shorter/lower tapes mean fewer operations, fewer faults, straighter
// schedules). Bounded by wall time; runs in-process (each attempt is one bubble).
func Shrink(t *testing.T, sp Spec, sig string, engine Engine, budget time.Duration) ([]uint32, int) {
	deadline := time.Now().Add(budget)
	attempts := 0
	try := func(c []uint32) ([]uint32, bool) {
		attempts++
		sp2 := sp
		if c == nil {
			c = []uint32{}
		}
		sp2.Tape = c
		sp2.Trace = false
		res := Exec(t, sp2, engine)
		if res.Violation != nil && res.Violation.Signature == sig && res.Harness == "" {
			out := res.Tape
			// strip trailing zeros: draws past the end are 0 anyway
			for len(out) > 0 && out[len(out)-1] == 0 {
				out = out[:len(out)-1]
			}
			return out, true
		}
		return nil, false
	}
	tape := sp.Tape
	cur := append([]uint32(nil), tape...)
	if c, ok := try(cur); ok {
		cur = c
	} else {
		return tape, attempts
	}
	less := func(a, b []uint32) bool {
		if len(a) != len(b) {
			return len(a) < len(b)
		}
		for i := range a {
			if a[i] != b[i] {
				return a[i] < b[i]
			}
		}
		return false
	}
	improved := true
	for improved && time.Now().Before(deadline) {
		improved = false
		// 1. truncate
		for n := len(cur) / 2; n >= 1 && time.Now().Before(deadline); n /= 2 {
			for len(cur) > n {
				c, ok := try(cur[:len(cur)-n])
				if ok && less(c, cur) {
					cur = c
					improved = true
				} else {
					break
				}
			}
		}
		// 2. delete chunks
		for _, sz := range []int{16, 8, 4, 2, 1} {
			for i := 0; i+sz <= len(cur) && time.Now().Before(deadline); {
				cand := append(append([]uint32(nil), cur[:i]...), cur[i+sz:]...)
				c, ok := try(cand)
				if ok && less(c, cur) {
					cur = c
					improved = true
				} else {
					i++
				}
			}
		}
		// 3. zero chunks
		for _, sz := range []int{8, 4, 2, 1} {
			for i := 0; i+sz <= len(cur) && time.Now().Before(deadline); i += sz {
				allZero := true
				for _, v := range cur[i : i+sz] {
					if v != 0 {
						allZero = false
					}
				}
				if allZero {
					continue
				}
				cand := append([]uint32(nil), cur...)
				for j := i; j < i+sz; j++ {
					cand[j] = 0
				}
				c, ok := try(cand)
				if ok && less(c, cur) {
					cur = c
					improved = true
				}
			}
		}
		// 4. lower single values
		for i := 0; i < len(cur) && time.Now().Before(deadline); i++ {
			for cur[i] > 0 && time.Now().Before(deadline) {
				cand := append([]uint32(nil), cur...)
				if cand[i] > 1 {
					cand[i] /= 2
				} else {
					cand[i] = 0
				}
				c, ok := try(cand)
				if ok && less(c, cur) {
					cur = c
					improved = true
					if i >= len(cur) {
						break
					}
				} else {
					if cur[i] > 0 {
						cand2 := append([]uint32(nil), cur...)
						cand2[i]--
						if c2, ok2 := try(cand2); ok2 && less(c2, cur) {
							cur = c2
							improved = true
							if i >= len(cur) {
								break
							}
							continue
						}
					}
					break
				}
			}
		}
	}
	return cur, attempts
}
