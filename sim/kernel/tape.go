// Package kernel is the deterministic-simulation kernel shared by all engines:
// the tape (single source of every choice), the bubble runner, the seeded
// scheduler, trace/violation recording and the tape shrinker.
package kernel

import (
	"time"
)

// Tape is the single source of nondeterministic choices of one run. In record
// mode values come from a splitmix64 stream seeded by the run seed; in replay
// mode they come from a recorded slice (draws past the end return 0, the
// "simplest" choice). Out always holds the normalised choices actually made,
// so Out of any run is a valid replay of that run.
type Tape struct {
	in     []uint32
	replay bool
	pos    int
	state  uint64
	Out    []uint32
}

func NewTape(seed uint64) *Tape { return &Tape{state: seed ^ 0x9e3779b97f4a7c15} }

func ReplayTape(rec []uint32) *Tape { return &Tape{in: rec, replay: true} }

func SplitMix(x uint64) uint64 {
	x += 0x9e3779b97f4a7c15
	z := x
	z = (z ^ (z >> 30)) * 0xbf58476d1ce4e5b9
	z = (z ^ (z >> 27)) * 0x94d049bb133111eb
	return z ^ (z >> 31)
}

func (t *Tape) next() uint64 {
	t.state += 0x9e3779b97f4a7c15
	z := t.state
	z = (z ^ (z >> 30)) * 0xbf58476d1ce4e5b9
	z = (z ^ (z >> 27)) * 0x94d049bb133111eb
	return z ^ (z >> 31)
}

// Draw returns a choice in [0,n). n<=1 consumes nothing.
func (t *Tape) Draw(n int) int {
	if n <= 1 {
		return 0
	}
	var v uint32
	if t.replay {
		if t.pos < len(t.in) {
			v = t.in[t.pos] % uint32(n)
		}
	} else {
		v = uint32(t.next() % uint64(n))
	}
	t.pos++
	t.Out = append(t.Out, v)
	return int(v)
}

// Bool is true with probability num/den.
func (t *Tape) Bool(num, den int) bool { return t.Draw(den) >= den-num }

// Range returns a value in [lo,hi].
func (t *Tape) Range(lo, hi int) int {
	if hi <= lo {
		return lo
	}
	return lo + t.Draw(hi-lo+1)
}

// Bytes returns n tape-chosen bytes (4 per draw; 0-filled in the simplest replay).
func (t *Tape) Bytes(n int) []byte {
	b := make([]byte, n)
	for i := 0; i < n; i += 3 {
		v := t.Draw(1 << 24)
		for j := 0; j < 3 && i+j < n; j++ {
			b[i+j] = byte(v >> (8 * j))
		}
	}
	return b
}

// Int63 returns a 62-bit value from two draws.
func (t *Tape) Int63() int64 {
	return int64(t.Draw(1<<31))<<31 | int64(t.Draw(1<<31))
}

// DurLog draws a duration roughly log-uniform in [lo,hi] (lo>=1ns).
func (t *Tape) DurLog(lo, hi time.Duration) time.Duration {
	if hi <= lo {
		return lo
	}
	// pick an exponent bucket then a value inside it
	nb := 0
	for x := lo; x < hi; x *= 2 {
		nb++
		if x > hi/2 {
			break
		}
	}
	b := t.Draw(nb + 1)
	base := lo
	for i := 0; i < b; i++ {
		base *= 2
	}
	if base > hi {
		base = hi
	}
	span := base
	if base+span > hi {
		span = hi - base
	}
	if span <= 0 {
		return base
	}
	return base + time.Duration(t.Int63()%int64(span+1))
}

// Pick returns one of the strings.
func Pick[T any](t *Tape, xs ...T) T { return xs[t.Draw(len(xs))] }

// Perm returns a tape-chosen permutation of 0..n-1.
func (t *Tape) Perm(n int) []int {
	p := make([]int, n)
	for i := range p {
		p[i] = i
	}
	for i := n - 1; i > 0; i-- {
		j := t.Draw(i + 1)
		p[i], p[j] = p[j], p[i]
	}
	return p
}
